# Which engine runs decide which property (see DESIGN.md §7). Bounds are the ones that run clean
# on the unchanged tree; quick tiers are sized for a few minutes on 16 cores.

P = "github.com/Flowpack/prunner"

def bmc(quick, thorough, reach=(), **kw):
    d = {"pkg": P, "harness": ["harness/prunner"], "entry": "VerifBMC", "replay": "bmc",
         "quick": quick, "thorough": thorough, "reach": list(reach)}
    d.update(kw)
    return d

RED = {"reservedvar": 0, "taskerr": 0, "taskcancel": 0}

def bmcPurge(reach=("undef", "redef", "save.purged-a-job", "end")):
    # the focal pipeline disappears from the definitions and comes back; SaveToStore in between (purge of jobs of undefined pipelines)
    q = {"K": 5, "N": 2, "undef": 1, "saves": 1, "reservedvar": 0, "taskerr": 0, "taskcancel": 0, "cancel": 0}
    th = {"K": 6, "N": 3, "undef": 1, "saves": 1, "reservedvar": 0, "taskerr": 0, "taskcancel": 0}
    return bmc(q, th, reach=reach)

def bmcB(reach=()):
    # longer histories over the reduced alphabet (schedule, cancel, return, cancel goroutine, timer)
    q = dict(RED, K=5, N=4)
    th = dict(RED, K=6, N=4)
    return bmc(q, th, reach=reach)

L3_ASSUME = [
    "L3: every PipelineRunner method body is atomic (it runs under r.mx; that discipline is property C13)",
    "Scheduler.Schedule is replaced by the most general stub allowed by the scheduler contract G2 (checked at L2, property C02/C04/C08 checks)",
    "time.AfterFunc/Timer.Stop contract: callback runs at most once, not before its deadline, never after a successful Stop",
    "uuid.NewV4 returns fresh distinct ids; instants lie in (0, 2^62) ns; start_delay < 2^61 ns",
    "apex/log calls are no-ops",
    "one focal pipeline with tasks a->b and an independent task c; histories of at most K events over at most N jobs",
    "purge run (C01, C05, C15): the alphabet is schedule / scheduler return / timer plus UNDEF (a reload whose definitions lack the focal pipeline), REDEF (it is defined again, unchanged) and SAVE (the real SaveToStore with recording stores, no retention configured); a job that a save removed is no longer expected to be reported, but it must not execute, hold a queue slot or be forgotten while it executes; C03/C06/C16 monitors are off once the pipeline was undefined (those properties speak of pipelines that remain defined)",
    "step run (C05, C15): one ScheduleAsync from an arbitrary state of up to N jobs (running / waiting with or without pending timer / finished / canceled) that satisfies the representation invariants asserted by the BMC; covers states no short history reaches (e.g. 3 waiting + 2 running)",
]

D = "github.com/Flowpack/prunner/definition"

def defrun(entry, quick=None, thorough=None, reach=(), **kw):
    d = {"pkg": D, "harness": ["harness/definition"], "entry": entry, "quick": quick or {}, "thorough": thorough or {}, "reach": list(reach), "replay": "harness"}
    d.update(kw)
    return d

S = "github.com/Flowpack/prunner/store"

def step(entry, quick=None, thorough=None, reach=(), **kw):
    d = {"pkg": P, "harness": ["harness/prunner"], "entry": entry, "quick": quick or {}, "thorough": thorough or {}, "reach": list(reach)}
    d.update(kw)
    return d

T = "github.com/Flowpack/prunner/taskctl"

L2_ASSUME = [
    "L2: the real taskctl.Scheduler (Schedule/Cancel/isDone/checkStatus/runStage) and the real upstream ExecutionGraph/Stage run multi-threaded under the engine's scheduler; a context switch is possible before every atomic operation, go statement, channel operation and harness yield (mutex/WaitGroup operations switch only when they block), bounded by the preemption bound",
    "the task runner is the most general stub satisfying the runner contract G1 (begins, takes time, ends ok / failed; once the cancel was delivered a running task ends canceled - with reactions=1 also with a failure of its own or regularly; refuses to run after the cancel)",
    "time.Sleep in the poll loop: the sleeper continues once anything changed since it last woke (idle-iteration elision); a sleeper that can never be woken is reported as livelock",
    "a third L2 configuration makes the stage-change callback a switch point instead of the atomic operations (3 stages, preemption bound 1): the callback takes time in prunner (it takes the runner-wide mutex), which is the window in which a stage is visible as 'error' before it becomes 'done'",
    "graphs: up to `stages` stages, every dependency shape, every allow_failure vector, every outcome vector; modes: undisturbed, external Cancel at any switch point, fail-fast Cancel",
]

def l2(quick, thorough, qflags, tflags, reach=()):
    return {"pkg": T, "harness": ["harness/taskctl"], "entry": "VerifL2Schedule", "replay": "l2", "quick": quick, "thorough": thorough,
            "quick_flags": qflags, "thorough_flags": tflags, "reach": list(reach)}

L2CB = l2({"stages": 3, "callbackyield": 1, "noatomicpreempt": 1}, {"stages": 3, "callbackyield": 1, "noatomicpreempt": 1}, {"preempt": 1}, {"preempt": 1}, reach=["schedule.nil", "dependent-skipped", "run.after-allowed-failure", "end"])
L2RUN3 = l2({"stages": 3}, {"stages": 3}, {"preempt": 0}, {"preempt": 0}, reach=["schedule.nil", "schedule.canceled", "dependent-skipped", "end"])
L2RUN = l2({"stages": 2, "reactions": 1}, {"stages": 3}, {"preempt": 2}, {"preempt": 1}, reach=["schedule.nil", "schedule.canceled", "run.canceled-in-flight", "run.refused-after-cancel", "run.after-allowed-failure", "dependent-skipped", "end"])

SELFTEST = {"pkg": P, "harness": ["harness/prunner"], "entry": "VerifSelfTest", "quick": {}, "thorough": {}, "reach": ["selftest-done"], "selftest": True, "flags": {"workers": 2}}

COMPOSITE = step("VerifComposite", {}, {}, reach=["verdict.success", "verdict.failure", "fail-fast", "allowed-failure", "cancel-acknowledged", "cancel-while-task-in-flight", "end"], flags={"preempt": 0})

APP = "github.com/Flowpack/prunner/app"
# reload plumbing of app.go (handleDefinitionChanges as a thread): what every reload loads is symbolic
RELOAD = {"pkg": APP, "harness": ["harness/app"], "entry": "VerifC16Reload", "quick": {"rounds": 2}, "thorough": {"rounds": 3},
          "flags": {"preempt": 0}, "reach": ["load-failed", "signal", "two-reloads-installed", "reload-without-change", "end"]}

C05STEP = step("VerifC05Step", {"N": 4}, {"N": 5}, reach=["sched.start", "sched.append", "sched.replace", "sched.reject-full", "sched.reject-noqueue", "three-waiting", "two-running", "end"])

CHECKS = {
    "C01": {"prefixes": ["C01."], "assumptions": L3_ASSUME, "validate_samples": {"quick": 1, "thorough": 3},
            "runs": [bmc({"K": 4, "N": 4}, {"K": 5, "N": 4}, reach=["spawn.concurrent>1", "end"]), bmcB(reach=["end"]), bmcPurge()]},
    "C02": {"prefixes": ["C02."], "assumptions": L3_ASSUME + L2_ASSUME, "validate_samples": {"quick": 1, "thorough": 3},
            "runs": [bmc({"K": 4, "N": 4}, {"K": 5, "N": 4}, reach=["end"]), L2RUN, L2RUN3, L2CB,
                     step("VerifC02Graph", {"tasks": 3}, {"tasks": 3}, reach=["cyclic", "acyclic", "fan-in"]),
                     step("VerifC02Graph", {"tasks": 4, "dagonly": 1, "permutemode": 1, "concretenames": 1}, {"tasks": 4, "dagonly": 1, "permutemode": 1, "concretenames": 1}, reach=["acyclic", "fan-in"]),
                     # every labelled DAG on 5 tasks (names by rank), one map iteration order: accepted, listed in a topological order
                     step("VerifC02Graph", {"tasks": 5, "dagonly": 1, "concretenames": 1}, {"tasks": 5, "dagonly": 1, "concretenames": 1}, reach=["acyclic"]),
                     # dependencies listed twice in depends_on (accepted by the loader): every DAG on 4 tasks x every doubling x every name order
                     step("VerifC02Graph", {"tasks": 4, "dagonly": 1, "concretenames": 1, "dupdeps": 1, "permute": 1}, {"tasks": 4, "dagonly": 1, "concretenames": 1, "dupdeps": 1, "permute": 1}, reach=["acyclic", "dependency-listed-twice"]),
                     # every labelled DAG on 6 tasks with at most 6 edges: accepted (349,273 paths, ~2.5 min); the smallest false cycle of seed S02a has 6 edges
                     step("VerifC02Graph", {"tasks": 6, "alldags": 1, "concretenames": 1, "permute": 1, "acceptonly": 1, "maxedges": 6}, {"tasks": 6, "alldags": 1, "concretenames": 1, "permute": 1, "acceptonly": 1, "maxedges": 6}, reach=["acyclic"]),
                     # every labelled DAG on 6 tasks (names in rank order = map insertion order): accepted (3.78 M paths)
                     step("VerifC02Graph", {}, {"tasks": 6, "alldags": 1, "concretenames": 1, "permute": 1, "acceptonly": 1}, reach=["acyclic"], thorough_only=True), SELFTEST]},
    "C03": {"prefixes": ["C03."], "assumptions": L3_ASSUME, "validate_samples": {"quick": 1, "thorough": 3},
            "runs": [bmc({"K": 4, "N": 4}, {"K": 5, "N": 4}, reach=["state.waiting", "cancel.waiting"]), bmcB(reach=["state.three-waiting"]),
                     bmc({"K": 4, "N": 3, "reloads": 1, "reservedvar": 0, "taskerr": 0}, {"K": 5, "N": 3, "reloads": 1, "taskerr": 0}, reach=["reload"])]},
    "C04": {"prefixes": ["C04."], "assumptions": L3_ASSUME + L2_ASSUME, "validate_samples": {"quick": 1, "thorough": 3},
            "runs": [bmc({"K": 4, "N": 4}, {"K": 5, "N": 4}, reach=["cancel.waiting", "cancel.running", "cancel.already-canceled", "cancel.completed"]), bmcB(reach=["cancel.already-canceled", "cancel.completed"]), L2RUN, L2RUN3, COMPOSITE]},
    "C05": {"prefixes": ["C05."], "assumptions": L3_ASSUME, "validate_samples": {"quick": 1, "thorough": 3},
            "runs": [bmc({"K": 4, "N": 4}, {"K": 5, "N": 4}, reach=["sched.start", "sched.append", "sched.replace", "sched.reject-full", "sched.reject-noqueue"]), bmcB(reach=["sched.replace"]), C05STEP, bmcPurge()]},
    "C06": {"prefixes": ["C06."], "assumptions": L3_ASSUME, "validate_samples": {"quick": 1, "thorough": 3},
            "runs": [bmc({"K": 4, "N": 4}, {"K": 5, "N": 4}, reach=["spawn.third-or-later-job"]), bmcB(reach=["spawn.third-or-later-job", "state.three-waiting"]),
                     # a canceled job that winds down (a task already reported the cancel) next to a waiting job
                     bmc({"K": 5, "N": 2, "reservedvar": 0, "taskerr": 0, "taskcancel": 1}, {"K": 6, "N": 3, "reservedvar": 0, "taskerr": 0, "taskcancel": 1}, reach=["state.waiting", "end"])]},
    "C07": {"prefixes": ["C07."], "assumptions": L3_ASSUME, "validate_samples": {"quick": 1, "thorough": 3},
            "runs": [bmc({"K": 4, "N": 4}, {"K": 5, "N": 4}, reach=["sched.delayed", "spawn.delayed-job", "sched.replace"]), bmcB(reach=["spawn.delayed-job", "sched.replace"])]},
    "C15": {"prefixes": ["C15."], "assumptions": L3_ASSUME, "validate_samples": {"quick": 1, "thorough": 3},
            "runs": [bmc({"K": 4, "N": 4}, {"K": 5, "N": 4}, reach=["end"]), bmcPurge(),
                     step("VerifC02Graph", {"tasks": 2}, {"tasks": 3}, reach=["cyclic", "acyclic"]),
                     step("VerifC02Graph", {"tasks": 5, "dagonly": 1, "concretenames": 1}, {"tasks": 5, "dagonly": 1, "concretenames": 1}, reach=["acyclic"]), SELFTEST, C05STEP,
                     # HTTP API level: the real handlers of GET /pipelines/, /pipelines/jobs, /job/detail against a runner started from an arbitrary snapshot
                     {"pkg": "github.com/Flowpack/prunner/server", "harness": ["harness/server"], "entry": "VerifC15Api", "quick": {"NJ": 1}, "thorough": {"NJ": 2},
                      "reach": ["pipelines", "pipelines-jobs", "detail", "running-job", "waiting-job", "queue-full"]}]},
    "C16": {"prefixes": ["C16."], "assumptions": L3_ASSUME, "validate_samples": {"quick": 1, "thorough": 3},
            "runs": [bmc({"K": 4, "N": 3, "reloads": 1, "reservedvar": 0, "taskerr": 0}, {"K": 5, "N": 3, "reloads": 1, "taskerr": 0}, reach=["reload"]), RELOAD]},
    "C17": {"prefixes": ["C17."],
            "assumptions": ["YAML decoding is a stub that fills the target with an arbitrary value of its type (yaml.v2 is not executed)",
                            "globbing returns the two files in either order; os.Open succeeds for them",
                            "shapes bounded: tasks/env/script/depends_on sizes as listed in bounds; strings are unbounded SMT strings",
                            "reload plumbing (VerifC16Reload): app.handleDefinitionChanges runs as a thread from its real SSA; the loader, CLI flags, ticker, signal subscription and PipelineRunner.ReplaceDefinitions are stubs; every load returns an error or a definition set whose task script is a fresh symbolic string (optionally with a second pipeline); `rounds` reload triggers (tick or SIGUSR1, watch flag symbolic): after each processed reload the runner holds the set loaded last successfully"],
            "runs": [defrun("VerifC17Validate", {"slice": 2, "map": 2}, {"slice": 2, "map": 2}, reach=["accepted", "rejected", "default-applied"]),
                     defrun("VerifC17Strategy", reach=["append", "replace", "unknown"]),
                     defrun("VerifC17EqualsTask", {"slice": 2, "map": 2}, {"slice": 2, "map": 2}, reach=["same", "different"]),
                     defrun("VerifC17EqualsPipeline", {"slice": 1, "map": 1}, {"slice": 1, "map": 2}, reach=["same", "different"]),
                     defrun("VerifC17EqualsSet", reach=["same-2"]),
                     defrun("VerifC17Load", reach=["duplicate", "loaded", "invalid-file"], replay=None), RELOAD]},
    "C10": {"prefixes": ["C10."],
            "assumptions": ["store.DataStore is a recording stub (the JSON codec is not executed, except the float writer kernel)",
                            "error texts are non-empty strings; instants in (0, 2^61)",
                            "snapshots: <=NJ jobs x <=2 tasks with arbitrary flags/status strings; round trip: one finished job x <=2 tasks",
                            "float kernel: which writer store.json selects is read statically from the SSA of the package initialisers; jsoniter's pow10 table is provided by the engine"],
            "runs": [step("VerifC10Load", {"NJ": 2}, {"NJ": 3}, reach=["finished-job", "unfinished-job", "full"], flags={"workers": 8}),
                     step("VerifC10RoundTrip", reach=["two-tasks"], flags={"workers": 8}, replay="harness"),
                     {"pkg": S, "harness": ["harness/store"], "entry": "VerifC10Float", "quick": {}, "thorough": {}, "reach": [], "replay": "float",
                      "flags": {"stop-at-first": "true", "wall": "240s", "solver-timeout-ms": 60000}, "allow_incomplete": True}]},
    "C12": {"prefixes": ["C12."],
            "assumptions": ["store and output store are recording stubs (os.RemoveAll / file writes are not executed)",
                            "instants in (0, 2^61) ns; retention_count / retention_period arbitrary 64-bit values (also negative)",
                            "population: <=NP jobs in pipeline p, <=NQ in q, <=1 in an undefined pipeline; every flag combination, Start nil or set",
                            "sort.Sort is executed from its real SSA (insertion sort for these sizes)",
                            "purge histories (L3 BMC with UNDEF / REDEF / SAVE events, <=K events, <=N jobs, two saves, no retention configured): L3 assumptions as for C01"],
            "runs": [step("VerifC12Retention", {"NP": 2, "NQ": 0}, {"NP": 2, "NQ": 0}, reach=["removed", "full-population"], flags={"solver": "cvc5-int"}, replay="harness"),
                     step("VerifC12Retention", {"NP": 1, "NQ": 1}, {"NP": 1, "NQ": 1}, reach=["removed", "full-population"], flags={"solver": "cvc5-int"}, replay="harness"),
                     step("VerifC12Retention", {"NP": 4, "NQ": 0, "finishedonly": 1}, {"NP": 4, "NQ": 0, "finishedonly": 1}, reach=["removed", "full-population"], flags={"solver": "cvc5-int"}, replay="harness"),
                     # larger populations without end instants (end instants: the three runs above)
                     step("VerifC12Retention", {}, {"NP": 3, "NQ": 0, "noend": 1}, reach=["removed", "full-population"], flags={"solver": "cvc5-int"}, replay="harness", thorough_only=True),
                     step("VerifC12Retention", {}, {"NP": 2, "NQ": 1, "noend": 1}, reach=["removed", "full-population"], flags={"solver": "cvc5-int"}, replay="harness", thorough_only=True),
                     step("VerifC12Retention", {}, {"NP": 5, "NQ": 0, "finishedonly": 1, "noend": 1}, reach=["removed", "full-population"], flags={"solver": "cvc5-int"}, replay="harness", thorough_only=True), SELFTEST,
                     # histories in which the pipeline disappears from the definitions: every save purges its jobs except one that still executes, and that one after it finished
                     bmc({"K": 5, "N": 2, "undef": 1, "saves": 2, "reservedvar": 0, "taskerr": 0, "taskcancel": 0, "cancel": 0},
                         {"K": 6, "N": 2, "undef": 1, "saves": 2, "reservedvar": 0, "taskerr": 0, "taskcancel": 0, "cancel": 0},
                         reach=["undef", "save.purged-a-job", "save.kept-an-executing-job", "save.purged-a-job-that-had-been-kept", "end"])]},
    "C13": {"prefixes": ["C13."],
            "assumptions": ["lock discipline, not a whole-program race analysis: every access to memory reachable from the PipelineRunner must happen with r.mx held in the right mode",
                            "declared happens-before exceptions: the scheduler goroutine reads its own job's sched/ID; fields set once in NewPipelineRunner (store, outputStore, persistRequests, createTaskRunner) are immutable (writes are reported)",
                            "state: built through the public API (finished, running and waiting jobs, retention configured); one operation per path"],
            "runs": [step("VerifC13Locks", reach=["op-done"])]},
    "C08": {"prefixes": ["C08."], "assumptions": L3_ASSUME + L2_ASSUME, "validate_samples": {"quick": 1, "thorough": 2},
            "runs": [L2RUN, L2RUN3, L2CB, COMPOSITE,
                     {"pkg": T, "harness": ["harness/taskctl"], "entry": "VerifC08Execute", "quick": {}, "thorough": {}, "reach": ["success", "allowed-failure", "allowed-failure.status>128", "failure"], "flags": {"workers": 2}},
                     bmc({"K": 4, "N": 3, "reservedvar": 0}, {"K": 5, "N": 3, "reservedvar": 0}, reach=["taskerr.failfast"])]},
    "C09": {"prefixes": ["C09."],
            "assumptions": ["file-system contract: CreateTemp/Write/Close/Rename/Open are atomic operations; Rename atomically replaces; a write may be short; every OS call may fail (symbolic fault schedule)",
                            "the JSON codec is a stub: Encode writes an opaque encoding of the snapshot in 1..chunks writes, Decode succeeds iff the file holds exactly one complete encoding",
                            "the process can die (and a reader can look) only between file-system operations; power loss without fsync is outside the property",
                            "concurrent run: two Save calls (the final save of Shutdown can overlap a save of the persist loop) as two threads, every file-system operation is a switch point, up to `preempt` preemptions; the published file must decode at the end and hold one of the two snapshots"],
            "runs": [{"pkg": S, "harness": ["harness/store"], "entry": "VerifC09Store", "quick": {"saves": 2, "chunks": 3}, "thorough": {"saves": 3, "chunks": 3},
                      "reach": ["published", "save-ok", "save-failed", "end"]},
                     {"pkg": S, "harness": ["harness/store"], "entry": "VerifC09Concurrent", "quick": {"faults": 0, "chunks": 2}, "thorough": {"faults": 0, "chunks": 2},
                      "quick_flags": {"preempt": 3}, "thorough_flags": {"preempt": 8}, "reach": ["both-returned", "end"]},
                     {"pkg": S, "harness": ["harness/store"], "entry": "VerifC09Concurrent", "quick": {}, "thorough": {"faults": 1, "chunks": 2},
                      "flags": {"preempt": 3}, "reach": ["both-returned", "end"], "thorough_only": True}]},
    "C14": {"prefixes": ["C14."],
            "assumptions": ["contract J (trusted, not executed): jwtauth.Verifier(ja) followed by jwtauth.Authenticator answers 401 and does not call the next handler unless the request carries a token that verifies under ja's algorithm and key and is currently valid (jwx: HMAC-SHA256, JSON, base64 are out of the solver's reach)",
                            "the real chi router is executed (Mux.Use/Group/Route/Mount/handle, radix tree insertion, Routes(), ChainHandler); net/http serving is not",
                            "app wiring is read statically from SSA: the algorithm constant passed to jwtauth.New"],
            "runs": [{"pkg": "github.com/Flowpack/prunner/server", "harness": ["harness/server"], "entry": "VerifC14Routes", "quick": {}, "thorough": {},
                      "flags": {"init": "github.com/go-chi/chi/v5", "loop-cap": 5000}, "reach": ["profiling-on", "profiling-off", "six-api-routes"]},
                     {"pkg": "github.com/Flowpack/prunner/config", "harness": ["harness/config"], "entry": "VerifC14Config", "quick": {}, "thorough": {}, "reach": ["accepted", "rejected"], "replay": "harness"},
                     {"pkg": "github.com/Flowpack/prunner/app", "harness": ["harness/app"], "entry": "VerifC14App", "quick": {}, "thorough": {}, "reach": ["checked"]}]},
    "C11": {"prefixes": ["C11."],
            "assumptions": L3_ASSUME + [
                "after a symbolic prefix of L3 events the pending activities become threads (scheduler goroutines that end on their own when scheduled or with context.Canceled once the stop was delivered; stop-delivery goroutines; in thorough a racing ScheduleAsync client); Shutdown runs on the harness thread; the forced variant cancels ctx from another thread at an arbitrary switch point",
                "time.After(poll interval) fires once something changed since it was armed (idle-iteration elision); the persist loop and pending start timers are not threads in VerifC11Shutdown",
                "VerifC11Persist: concrete configuration (concurrency 1, one running and one waiting job), the REAL persist loop goroutine of NewPipelineRunner runs as a thread, the store's write is a switch point (a slow disk), graceful Shutdown on the harness thread; after Shutdown returned and every activity ended the last write to the store must hold the final state",
                "the store is a recording stub; 'store equals final state' compares flags and start/end presence per job",
                "VerifC11Race: one ScheduleAsync request races a graceful Shutdown of an idle runner (pipeline with or without start delay), all atomic operations / blocking locks / channel operations are switch points: the request is refused with ErrShuttingDown and leaves nothing, or its job is terminal and in the store's final snapshot",
                "persist discipline (L3 BMC): before every event the pending persist request is taken away; if the event changes what SaveToStore would write (job set, flags, presence of instants and errors, task statuses) a persist request must be pending afterwards; together with the persist loop's interval (<= 3 s, VerifC11Persist) this is 'every acknowledged change reaches the store within the persist interval'; real time is not measured"],
            "runs": [step("VerifC11Shutdown", {"K": 2, "N": 2, "racer": 0}, {"K": 2, "N": 2, "racer": 0}, reach=["shutdown.graceful", "shutdown.forced", "shutdown.with-running-job", "shutdown.with-waiting-job", "end"],
                          flags={"preempt": 0}),
                     step("VerifC11Shutdown", {}, {"K": 0, "N": 1, "racer": 1, "idlepipeline": 0}, reach=["shutdown.graceful", "shutdown.forced", "racer.accepted", "end"],
                          flags={"preempt": 0}, thorough_only=True),
                     step("VerifC11Persist", {}, {}, reach=["periodic-and-final-save", "persist-interval-seen", "end"], quick_flags={"preempt": 1}, thorough_flags={"preempt": 2}),
                     step("VerifC11Race", {}, {}, reach=["racer.accepted", "racer.rejected", "end"], quick_flags={"preempt": 2}, thorough_flags={"preempt": 5}),
                     # persist discipline: every event that changes what a save would write asks for a save
                     bmc({"K": 3, "N": 3}, {"K": 4, "N": 4}, reach=["persist.state-changed", "end"])]},
    "C18": {"prefixes": ["C18."],
            "assumptions": ["contract-level: checked up to the exec boundary - the list handed to expand.ListEnviron (later entries override earlier ones: mvdan/sh contract), the variables handed to the template renderer, the command text; the shell interpreter, text/template and exec are not executed",
                            "stubs: os.Environ (symbolic process environment), os.Getwd, interp.New/Run, expand.ListEnviron, syntax.Parser.Parse, utils.RenderString (identity on strings without template actions), reflect.ValueOf(x).Kind()",
                            "VerifC18Stage: the real Scheduler.runStage hands a stage to a capturing runner; the stage carries the job's variables (one symbolic name + the job id), the task's environment may define the same name and / or the reserved job id name (symbolic values): the task is run with the job's values",
                            "one symbolic variable name (no '=' in it, not TASK_NAME) that may be defined at each of the three levels, symbolic values, symbolic task name and job variable value; two commands per task"],
            "runs": [{"pkg": T, "harness": ["harness/taskctl"], "entry": "VerifC18Env", "quick": {}, "thorough": {}, "reach": ["defined-somewhere", "all-three-levels"]},
                     {"pkg": T, "harness": ["harness/taskctl"], "entry": "VerifC18Stage", "quick": {}, "thorough": {}, "reach": ["name-collision", "job-id-collision", "end"]},
                     step("VerifC18Reserved", reach=["reserved", "ordinary"], replay="harness"),
                     bmc({"K": 3, "N": 3}, {"K": 4, "N": 4}, reach=["end"])]},
    "C19": {"prefixes": ["C19."],
            "assumptions": ["contract-level: decided up to the hand-over of writers/readers; that bytes written to an *os.File arrive completely and in order, under any volume and concurrency, is operating-system behaviour and is trusted",
                            "stubs: shell interpreter (interp.New/StdIO/Run), parser, template renderer, os.Environ/Getwd; recording output store; HTTP plumbing of the log API (query parsing, JSON encoding) is stubbed, the handler and the runner are real",
                            "file attribution (VerifC19Paths): FileOutputStore.buildPath with fmt.Sprintf, path.Join and path.Clean executed from their real SSA on two task names that are byte sequences of symbolic bytes (lengths <= len1 / len2, every byte arbitrary, only names the loader's Validate accepts), job ids without '/', both streams: distinct (job, task, stream) give distinct files and every file lies inside its job's directory; longer names are outside the bound"],
            "runs": [{"pkg": T, "harness": ["harness/taskctl"], "entry": "VerifC19Writers", "quick": {}, "thorough": {}, "reach": ["ran", "open-failed"]},
                     {"pkg": "github.com/Flowpack/prunner/server", "harness": ["harness/server"], "entry": "VerifC19Logs", "quick": {}, "thorough": {},
                      "reach": ["own-task", "foreign-task", "unknown-job", "malformed-id", "empty-task", "non-canonical-id"]},
                     {"pkg": T, "harness": ["harness/taskctl"], "entry": "VerifC19Paths", "quick": {"len1": 1, "len2": 6}, "thorough": {"len1": 2, "len2": 6},
                      "reach": ["long-name", "end"], "replay": "harness"}]},
    "C20": {"prefixes": ["C20."],
            "assumptions": ["contract-level against a process-group model: Start creates a group led by the child iff Setpgid; a signal to -pgid reaches every member, to +pid only the child; SIGKILL cannot be ignored, SIGINT can; members may exit on their own at any time; Wait returns when the child is dead",
                            "the kernel (signal delivery, reaping, pid reuse), os/exec and real timing are not executed; time.Sleep(killTimeout) ends at an arbitrary later point",
                            "a stale watcher goroutine signalling a recycled pid after the command ended (pid reuse) is outside the model",
                            "group of <= 3 members, every ignore/exit combination, context canceled at any switch point or never, killTimeout any int64"],
            "runs": [{"pkg": T, "harness": ["harness/taskctl"], "entry": "VerifC20Exec", "quick": {}, "thorough": {}, "quick_flags": {"preempt": 0}, "thorough_flags": {"preempt": 1},
                      "reach": ["canceled-while-running", "interrupt-ignoring-process-killed", "ran-to-its-natural-end", "with-descendants"]},
                     {"pkg": T, "harness": ["harness/taskctl"], "entry": "VerifC20Cancel", "quick": {}, "thorough": {}, "flags": {"preempt": 2}, "reach": ["end"]}]},
}
