# Which engine runs decide which property (see DESIGN.md §7). Bounds are the ones that run clean
# on the unchanged tree; quick tiers are sized for a few minutes on 16 cores.

P = "github.com/Flowpack/prunner"

def bmc(quick, thorough, reach=(), **kw):
    d = {"pkg": P, "harness": ["harness/prunner"], "entry": "VerifBMC", "replay": "bmc",
         "quick": quick, "thorough": thorough, "reach": list(reach)}
    d.update(kw)
    return d

L3_ASSUME = [
    "L3: every PipelineRunner method body is atomic (it runs under r.mx; that discipline is property C13)",
    "Scheduler.Schedule is replaced by the most general stub allowed by the scheduler contract G2 (checked at L2, property C02/C04/C08 checks)",
    "time.AfterFunc/Timer.Stop contract: callback runs at most once, not before its deadline, never after a successful Stop",
    "uuid.NewV4 returns fresh distinct ids; instants lie in (0, 2^62) ns; start_delay < 2^61 ns",
    "apex/log calls are no-ops",
    "one focal pipeline with two tasks a->b; histories of at most K events over at most N jobs",
]

D = "github.com/Flowpack/prunner/definition"

def defrun(entry, quick=None, thorough=None, reach=(), **kw):
    d = {"pkg": D, "harness": ["harness/definition"], "entry": entry, "quick": quick or {}, "thorough": thorough or {}, "reach": list(reach), "replay": "harness"}
    d.update(kw)
    return d

CHECKS = {
    "C01": {"prefixes": ["C01."], "assumptions": L3_ASSUME, "validate_samples": {"quick": 1, "thorough": 3},
            "runs": [bmc({"K": 4, "N": 4}, {"K": 5, "N": 4}, reach=["spawn.concurrent>1", "end"])]},
    "C02": {"prefixes": ["C02."], "assumptions": L3_ASSUME, "validate_samples": {"quick": 1, "thorough": 3},
            "runs": [bmc({"K": 4, "N": 4}, {"K": 5, "N": 4}, reach=["end"])]},
    "C03": {"prefixes": ["C03."], "assumptions": L3_ASSUME, "validate_samples": {"quick": 1, "thorough": 3},
            "runs": [bmc({"K": 4, "N": 4}, {"K": 5, "N": 4}, reach=["state.waiting", "cancel.waiting"]),
                     bmc({"K": 4, "N": 3, "reloads": 1, "reservedvar": 0, "taskerr": 0}, {"K": 5, "N": 3, "reloads": 1, "taskerr": 0}, reach=["reload"])]},
    "C04": {"prefixes": ["C04."], "assumptions": L3_ASSUME, "validate_samples": {"quick": 1, "thorough": 3},
            "runs": [bmc({"K": 4, "N": 4}, {"K": 5, "N": 4}, reach=["cancel.waiting", "cancel.running", "cancel.already-canceled", "cancel.completed"])]},
    "C05": {"prefixes": ["C05."], "assumptions": L3_ASSUME, "validate_samples": {"quick": 1, "thorough": 3},
            "runs": [bmc({"K": 4, "N": 4}, {"K": 5, "N": 4}, reach=["sched.start", "sched.append", "sched.replace", "sched.reject-full", "sched.reject-noqueue"])]},
    "C06": {"prefixes": ["C06."], "assumptions": L3_ASSUME, "validate_samples": {"quick": 1, "thorough": 3},
            "runs": [bmc({"K": 4, "N": 4}, {"K": 5, "N": 4}, reach=["spawn.third-or-later-job"])]},
    "C07": {"prefixes": ["C07."], "assumptions": L3_ASSUME, "validate_samples": {"quick": 1, "thorough": 3},
            "runs": [bmc({"K": 4, "N": 4}, {"K": 5, "N": 4}, reach=["sched.delayed", "spawn.delayed-job", "sched.replace"])]},
    "C15": {"prefixes": ["C15."], "assumptions": L3_ASSUME, "validate_samples": {"quick": 1, "thorough": 3},
            "runs": [bmc({"K": 4, "N": 4}, {"K": 5, "N": 4}, reach=["end"])]},
    "C16": {"prefixes": ["C16."], "assumptions": L3_ASSUME, "validate_samples": {"quick": 1, "thorough": 3},
            "runs": [bmc({"K": 4, "N": 3, "reloads": 1, "reservedvar": 0, "taskerr": 0}, {"K": 5, "N": 3, "reloads": 1, "taskerr": 0}, reach=["reload"])]},
    "C17": {"prefixes": ["C17."],
            "assumptions": ["YAML decoding is a stub that fills the target with an arbitrary value of its type (yaml.v2 is not executed)",
                            "globbing returns the two files in either order; os.Open succeeds for them",
                            "shapes bounded: tasks/env/script/depends_on sizes as listed in bounds; strings are unbounded SMT strings"],
            "runs": [defrun("VerifC17Validate", {"slice": 2, "map": 2}, {"slice": 2, "map": 2}, reach=["accepted", "rejected", "default-applied"]),
                     defrun("VerifC17Strategy", reach=["append", "replace", "unknown"]),
                     defrun("VerifC17EqualsTask", {"slice": 2, "map": 2}, {"slice": 2, "map": 2}, reach=["same", "different"]),
                     defrun("VerifC17EqualsPipeline", {"slice": 1, "map": 1}, {"slice": 1, "map": 2}, reach=["same", "different"]),
                     defrun("VerifC17EqualsSet", reach=["same-2"]),
                     defrun("VerifC17Load", reach=["duplicate", "loaded", "invalid-file"], replay=None)]},
}
