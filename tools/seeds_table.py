#!/usr/bin/env python3
"""Prints the markdown table of seeded changes from /verif/seeded/*/meta.json."""
import glob, json, os
rows = []
for m in sorted(glob.glob("/verif/seeded/*/meta.json")):
    d = json.load(open(m))
    sid = d["seed"]
    notes = {}
    np = os.path.join(os.path.dirname(m), "notes.json")
    if os.path.exists(np):
        notes = json.load(open(np))
    res = []
    for c, r in d.get("checks_quick", {}).items():
        if r["exit"] == 1:
            obl = [l.split("obligation=")[-1] for l in r["lines"] if l.startswith("VIOLATION")][:2]
            res.append("%s quick: VIOLATION (%s)" % (c, "; ".join(obl)))
        elif r["exit"] == 0:
            res.append("%s quick: not detected" % c)
        else:
            res.append("%s quick: engine error (exit %s)" % (c, r["exit"]))
    rows.append("| %s | %s | %s | %s | %s |" % (sid, d["property"], notes.get("change", ""), notes.get("needs", ""), "; ".join(res) + (" - " + notes["remark"] if notes.get("remark") else "")))
print("| seed | property | change | needs | result of the property's quick check with the patch applied |")
print("|---|---|---|---|---|")
print("\n".join(rows))
