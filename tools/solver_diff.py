#!/usr/bin/env python3
"""solver_diff.py: re-decides every query of a (path-limited) engine run with the other solvers.
Usage: solver_diff.py <pkg> <pkgdir-rel> <harness-dirs,comma> <entry> [bounds] [max-paths]
The engine is run with one worker and -dump-smt; the transcript (push/pop/assert/check-sat) is then
fed to z3 4.8.12, z3 5.1.0 and cvc5 1.0 and the sequences of verdicts are compared."""
import os, re, subprocess, sys, tempfile
ROOT = "/verif"
pkg, rel, hdirs, entry = sys.argv[1:5]
bounds = sys.argv[5] if len(sys.argv) > 5 else ""
maxp = sys.argv[6] if len(sys.argv) > 6 else "150"
repo = os.environ.get("VERIF_REPO", "/repo")
tmp = tempfile.mkdtemp(prefix="verif_sdiff_")
cmd = [ROOT + "/bin/gosx", "-repo", repo, "-pkg", pkg, "-pkgdir", os.path.join(repo, rel), "-harness", hdirs, "-entry", entry,
       "-workers", "1", "-max-paths", maxp, "-dump-smt", tmp + "/q", "-out", tmp + "/r.json"]
if bounds:
    cmd += ["-bounds", bounds]
subprocess.run(cmd, stdout=subprocess.DEVNULL, stderr=subprocess.DEVNULL)
src = open(tmp + "/q.0.smt2").read().splitlines()
body = [l for l in src if not l.startswith("(get-value") and not l.startswith("(set-option :timeout")]
def run(solver, args, pre):
    p = tmp + "/" + solver + ".smt2"
    open(p, "w").write("\n".join(pre + body) + "\n")
    out = subprocess.run([solver] + args + [p], stdout=subprocess.PIPE, stderr=subprocess.STDOUT, text=True, timeout=3600).stdout
    return [l.strip() for l in out.splitlines() if l.strip() in ("sat", "unsat", "unknown", "timeout") or l.startswith("(error")]
res = {
    "z3-4.8.12": run("z3", [], ["(set-option :timeout 60000)"]),
    "z3-5.1.0": run("z3-new", [], ["(set-option :timeout 60000)"]),
    "cvc5-1.0": run("cvc5", ["--incremental", "--strings-exp", "--tlimit-per=60000", "--lang=smt2"], ["(set-logic ALL)"]),
}
n = len(res["z3-4.8.12"])
print("entry=%s queries=%d" % (entry, n))
base = res["z3-4.8.12"]
for k, v in res.items():
    dis = [i for i in range(min(len(v), n)) if v[i] != base[i] and "unknown" not in (v[i], base[i]) and "timeout" not in (v[i], base[i])]
    print("  %-10s answers=%d sat=%d unsat=%d unknown/timeout=%d errors=%d disagreements_with_z3-4.8.12=%d" % (
        k, len(v), v.count("sat"), v.count("unsat"), v.count("unknown") + v.count("timeout"), sum(1 for x in v if x.startswith("(error")), len(dis)))
import shutil; shutil.rmtree(tmp, ignore_errors=True)
