#!/usr/bin/env python3
"""seed_eval.py <worktree-name> <seed-id> <property> [checks...]
Confirms a seeded change independently (scratch worktree: suite passes with it, demo fails with it,
demo passes without it), stores it under /verif/seeded/<seed-id>/ and runs the given checks
(default: the property's quick check) against /repo with the patch applied, then reverts /repo."""
import json, os, shutil, subprocess, sys, time

ENV = dict(os.environ, GOFLAGS="-mod=mod", GOPROXY="off", GOSUMDB="off", GOTOOLCHAIN="local",
           VERIF_EVIDENCE_DIR="/verif/.work/evidence_seeded", VERIF_REPLAYS_DIR="/verif/.work/replays_seeded")


def sh(cmd, cwd=None, timeout=1800):
    p = subprocess.run(cmd, shell=True, cwd=cwd, env=ENV, stdout=subprocess.PIPE, stderr=subprocess.STDOUT, text=True, timeout=timeout)
    return p.returncode, p.stdout


def main():
    wt, sid, prop = sys.argv[1], sys.argv[2], sys.argv[3]
    checks = sys.argv[4:] or [prop]
    src = "/tmp/wt/%s" % wt
    out = os.path.join(src, "OUT")
    demo_rel = None
    for root, _, files in os.walk(src):
        if "/OUT" in root or "/.git" in root:
            continue
        if "zz_demo_test.go" in files:
            demo_rel = os.path.relpath(os.path.join(root, "zz_demo_test.go"), src)
    assert demo_rel, "demo test not found in worktree"
    scratch = "/tmp/wt/confirm_%s" % sid
    sh("git -C /repo worktree remove --force %s" % scratch)
    rc, o = sh("git -C /repo worktree add -q --detach %s HEAD" % scratch)
    assert rc == 0, o
    meta = {"seed": sid, "property": prop, "demo_path": demo_rel, "ran": []}
    try:
        rc, o = sh("git apply --check %s/patch.diff && git apply %s/patch.diff" % (out, out), cwd=scratch)
        assert rc == 0, "patch does not apply: " + o
        rc, o = sh("go build ./... && go test -vet=off -count=1 ./...", cwd=scratch)
        meta["suite_passes_with_change"] = rc == 0
        meta["ran"].append("go build ./... && go test -vet=off -count=1 ./...  (with change, without demo): rc=%d" % rc)
        shutil.copy(os.path.join(out, "zz_demo_test.go") if os.path.exists(os.path.join(out, "zz_demo_test.go")) else os.path.join(src, demo_rel), os.path.join(scratch, demo_rel))
        pkgdir = os.path.dirname(demo_rel) or "."
        rc, o = sh("go test " + os.environ.get('VERIF_DEMO_FLAGS', '') + " -vet=off -count=1 -run 'Demo' ./%s" % pkgdir, cwd=scratch)
        meta["demo_fails_with_change"] = rc != 0
        meta["ran"].append("go test -run Demo ./%s (with change): rc=%d" % (pkgdir, rc))
        rc, o = sh("git apply -R %s/patch.diff" % out, cwd=scratch)
        assert rc == 0, o
        rc, o = sh("go test " + os.environ.get('VERIF_DEMO_FLAGS', '') + " -vet=off -count=1 -run 'Demo' ./%s" % pkgdir, cwd=scratch)
        meta["demo_passes_without_change"] = rc == 0
        meta["ran"].append("go test -run Demo ./%s (without change): rc=%d" % (pkgdir, rc))
    finally:
        sh("git -C /repo worktree remove --force %s" % scratch)
    ok = meta.get("suite_passes_with_change") and meta.get("demo_fails_with_change") and meta.get("demo_passes_without_change")
    meta["confirmed"] = bool(ok)
    dest = "/verif/seeded/%s" % sid
    os.makedirs(dest, exist_ok=True)
    shutil.copy(os.path.join(out, "patch.diff"), dest)
    shutil.copy(os.path.join(src, demo_rel), os.path.join(dest, "zz_demo_test.go.txt"))
    if os.path.exists(os.path.join(out, "README.md")):
        shutil.copy(os.path.join(out, "README.md"), os.path.join(dest, "AGENT_README.md"))
    # run checks with the patch applied: against /repo itself, or (VERIF_SEED_SCRATCH=1) against a scratch
    # worktree of /repo's HEAD so that /repo stays untouched while other runs use it
    results = {}
    scratch_eval = None
    if os.environ.get("VERIF_SEED_SCRATCH") == "1":
        scratch_eval = "/tmp/wt/eval_%s" % sid
        sh("git -C /repo worktree remove --force %s" % scratch_eval)
        rc, o = sh("git -C /repo worktree add -q --detach %s HEAD" % scratch_eval)
        assert rc == 0, o
        rc, o = sh("git -C %s apply %s/patch.diff" % (scratch_eval, dest))
        assert rc == 0, o
        repo_env = "VERIF_REPO=%s " % scratch_eval
    else:
        rc, o = sh("git -C /repo status --porcelain")
        assert o.strip() == "", "/repo not clean: " + o
        rc, o = sh("git -C /repo apply %s/patch.diff" % dest)
        assert rc == 0, o
        repo_env = ""
    try:
        for c in checks:
            t0 = time.time()
            rc, o = sh("cd /verif && %s./check %s quick" % (repo_env, c), timeout=3600)
            lines = [l for l in o.splitlines() if l.startswith(("VIOLATION", "KNOWN-FINDING", "ENGINE-ERROR", "OK "))]
            results[c] = {"exit": rc, "lines": lines[:6], "wall_s": round(time.time() - t0)}
            print(c, rc, lines[:3])
    finally:
        if scratch_eval:
            sh("git -C /repo worktree remove --force %s" % scratch_eval)
        else:
            sh("git -C /repo checkout -- .")
    meta["checks_quick"] = results
    meta["detected_by"] = [c for c, r in results.items() if r["exit"] == 1]
    json.dump(meta, open(os.path.join(dest, "meta.json"), "w"), indent=1)
    print(json.dumps({k: meta[k] for k in ("confirmed", "detected_by")}))


if __name__ == "__main__":
    main()
