#!/usr/bin/env python3
"""Rewrites the seeds table of DESIGN.md §0.5 from /verif/seeded/*/meta.json + notes.json."""
import subprocess, re
p = "/verif/DESIGN.md"
s = open(p).read()
table = subprocess.run(["python3", "/verif/tools/seeds_table.py"], stdout=subprocess.PIPE, text=True).stdout.strip()
start = s.index("| seed | property | change | needs |")
end = s.index("\nSummary:", start)
s = s[:start] + table + "\n" + s[end:]
open(p, "w").write(s)
print(len(table.splitlines()) - 2, "seeds")
