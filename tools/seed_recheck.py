#!/usr/bin/env python3
"""seed_recheck.py [seed-id ...]: re-runs the quick check of each stored seeded change
(/verif/seeded/<id>/patch.diff applied to /repo, reverted afterwards) and updates meta.json."""
import json, os, subprocess, sys, time, glob
ENV = dict(os.environ, GOFLAGS="-mod=mod", GOPROXY="off", GOSUMDB="off", GOTOOLCHAIN="local",
           VERIF_EVIDENCE_DIR="/verif/.work/evidence_seeded", VERIF_REPLAYS_DIR="/verif/.work/replays_seeded")

def sh(cmd, timeout=3600):
    p = subprocess.run(cmd, shell=True, env=ENV, stdout=subprocess.PIPE, stderr=subprocess.STDOUT, text=True, timeout=timeout)
    return p.returncode, p.stdout

ids = sys.argv[1:] or sorted(os.path.basename(os.path.dirname(m)) for m in glob.glob("/verif/seeded/*/meta.json"))
for sid in ids:
    d = "/verif/seeded/" + sid
    meta = json.load(open(d + "/meta.json"))
    scratch = None
    repo_env = ""
    if os.environ.get("VERIF_SEED_SCRATCH") == "1":
        # evaluate against a scratch worktree of /repo's HEAD so that /repo stays untouched
        scratch = "/tmp/wt/eval_%s" % sid
        sh("git -C /repo worktree remove --force %s" % scratch)
        rc, o = sh("git -C /repo worktree add -q --detach %s HEAD" % scratch)
        assert rc == 0, o
        rc, o = sh("git -C %s apply %s/patch.diff" % (scratch, d))
        assert rc == 0, o
        repo_env = "VERIF_REPO=%s " % scratch
    else:
        rc, o = sh("git -C /repo status --porcelain")
        assert o.strip() == "", "/repo not clean: " + o
        rc, o = sh("git -C /repo apply %s/patch.diff" % d)
        assert rc == 0, o
    try:
        c = meta["property"]
        t0 = time.time()
        repo_env += "VERIF_EVIDENCE_DIR=/verif/.work/evidence_seeded/%s VERIF_REPLAYS_DIR=/verif/.work/replays_seeded/%s " % (sid, sid)
        rc, o = sh("cd %s && %s./check %s quick" % (os.environ.get("VERIF_ROOT", "/verif"), repo_env, c))
        lines = [l for l in o.splitlines() if l.startswith(("VIOLATION", "KNOWN-FINDING", "ENGINE-ERROR", "OK "))]
        meta["checks_quick"] = {c: {"exit": rc, "lines": lines[:6], "wall_s": round(time.time() - t0)}}
        meta["detected_by"] = [c] if rc == 1 else []
        meta["rechecked_at_verif_commit"] = subprocess.run("git -C /verif rev-parse --short HEAD", shell=True, stdout=subprocess.PIPE, text=True).stdout.strip()
        print(sid, c, rc, lines[:2], flush=True)
    finally:
        if scratch:
            sh("git -C /repo worktree remove --force %s" % scratch)
        else:
            sh("git -C /repo checkout -- .")
    json.dump(meta, open(d + "/meta.json", "w"), indent=1)
