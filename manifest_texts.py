L3 = ("Bounded model checking by symbolic execution of the real prunner.go methods (SSA from /repo): every history of up to K events "
      "(schedule, cancel, scheduler return, cancel goroutine, timer expiry, task failure, reload) over up to N jobs, with concurrency, queue_limit, "
      "queue_strategy, start_delay, the fail-fast flag and all clock readings as 64-bit symbolic variables; z3 decides every branch and every assertion "
      "for all values at once; counterexamples are replayed natively through the public API.")
L3_NOTE = ("Bounded (K events, N jobs, one focal pipeline with tasks a->b). Trusted: method bodies are atomic under r.mx (C13), Scheduler.Schedule obeys contract G2 "
           "(stub; checked at L2), timer contract, uuid freshness, logging is a no-op. Outside: longer histories, more jobs, real-time latency.")
T = "SMT-based bounded model checking: symbolic execution of go/ssa (own engine gosx) + z3, native replay of counterexamples"

TEXTS = {
    "C01": {"level": L3 + " Monitor: at every spawn of a scheduler goroutine the number of live scheduler goroutines of the pipeline is <= the current concurrency; a slot is held exactly while that goroutine exists.", "note": L3_NOTE, "technique": T},
    "C02": {"level": L3 + " Monitor: at most one scheduler goroutine per job; a job that cannot be started is reported canceled with an error.", "note": L3_NOTE, "technique": T},
    "C03": {"level": L3 + " Liveness reduced to a safety invariant checked after every event (stuck-freedom): the oldest live waiting job always has a pending wake-up, and under an unchanged definition a free slot plus an elapsed delay means it has started.", "note": L3_NOTE + " The step from stuck-freedom to 'eventually starts' is a finiteness argument, not a solver result.", "technique": T},
    "C04": {"level": L3 + " Monitors: return value and effect of CancelJob for every job state; a job whose cancel was acknowledged while waiting never spawns.", "note": L3_NOTE, "technique": T},
    "C05": {"level": L3 + " Every ScheduleAsync outcome is compared with a reference decision table written from the property text, over symbolic configuration values; rejected requests leave no trace; waiting count bounds.", "note": L3_NOTE, "technique": T},
    "C06": {"level": L3 + " Monitor at every spawn: no job accepted earlier is still waiting (unchanged definition).", "note": L3_NOTE, "technique": T},
    "C07": {"level": L3 + " Monitor at every spawn with the symbolic clock: event instant >= acceptance instant + delay; replaced jobs are reported canceled and never spawn.", "note": L3_NOTE, "technique": T},
    "C15": {"level": L3 + " Before every schedule request ListPipelines is evaluated on the same state: schedulable iff accepted, running iff a job holds a slot; every accepted job is reported by id and in the list; created <= start <= end.", "note": L3_NOTE, "technique": T},
    "C16": {"level": L3 + " With a symbolic RELOAD event (new arbitrary valid configuration, rewired tasks): the graph and env handed to the scheduler at start equal the definition at acceptance; a reload changes no job field, starts/cancels nothing and strands nobody.", "note": L3_NOTE, "technique": T},
}
TEXTS["C04"] = {"level": L3 + " Monitors: return value and effect of CancelJob for every job state (unknown id is covered by the step harness); a job whose cancel was acknowledged while waiting never spawns; a run that returns canceled is reported canceled.", "note": L3_NOTE, "technique": T}
TEXTS["C17"] = {"level": "Symbolic execution of definition.validate/setDefaults/Validate, QueueStrategy.UnmarshalYAML, TaskDef/PipelineDef/PipelinesDef.Equals and LoadRecursively/Load over arbitrary definitions built from go/types (all strings symbolic, shapes case-split within bounds): acceptance iff a reference validity predicate; Equals iff structural equality (fields enumerated by type, so future fields are included); loading two files in both enumeration orders gives the same result (2-safety in one path). z3 (BV+String) decides every path; counterexamples are replayed natively by running the same harness with the solver's values.",
                "note": "Bounds: <=2 tasks, <=2 env entries, <=2 script lines / dependencies (pipeline-level Equals: 1 each in quick, env 2 in thorough), <=2 pipelines, 2 files. Trusted: yaml.v2 decoding (stub returning an arbitrary struct), globbing, os.Open. 'loads to exactly what it says' (YAML semantics) is outside.", "technique": T}
NOT_APPLICABLE = {}
