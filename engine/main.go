// gosx: a path-forking symbolic executor for Go SSA with an SMT back end, written for the
// verification of Flowpack/prunner (see /verif/DESIGN.md §3).
package main

import (
	"encoding/json"
	"flag"
	"fmt"
	"go/types"
	"os"
	"path/filepath"
	"runtime"
	"sort"
	"strconv"
	"strings"
	"sync/atomic"
	"time"

	"golang.org/x/tools/go/ssa"
)

type output struct {
	Entry      string             `json:"entry"`
	Package    string             `json:"package"`
	Results    *results           `json:"results"`
	Solver     map[string]float64 `json:"solver"`
	Bounds     map[string]int64   `json:"bounds"`
	LoadSecs   float64            `json:"load_s"`
	WallSecs   float64            `json:"wall_s"`
	Workers    int                `json:"workers"`
	SolverKind string             `json:"solver_kind"`
	LoopCap    int                `json:"loop_cap"`
	MaxSteps   int64              `json:"max_steps"`
	Preempt    int                `json:"preemption_bound"`
}

func main() {
	var (
		repo     = flag.String("repo", "/repo", "repository root")
		pkg      = flag.String("pkg", "github.com/Flowpack/prunner", "import path of the package under test (harness is overlaid into it)")
		pkgDir   = flag.String("pkgdir", "", "directory of that package (default: derived from repo and pkg)")
		harness  = flag.String("harness", "", "comma-separated directories with harness sources (*.go) to overlay")
		entry    = flag.String("entry", "", "harness entry function")
		workers  = flag.Int("workers", runtime.NumCPU(), "parallel workers")
		maxPaths = flag.Int64("max-paths", 0, "path budget (0 = none)")
		maxSteps = flag.Int64("max-steps", 2000000, "instruction budget per path")
		loopCap  = flag.Int("loop-cap", 400, "visits of one block per frame before an unwinding failure")
		solverK  = flag.String("solver", "z3", "z3 | z3-new | cvc5")
		timeout  = flag.Int("solver-timeout-ms", 20000, "per-query solver timeout")
		preempt  = flag.Int("preempt", 2, "preemption bound in threaded mode")
		wall     = flag.Duration("wall", 0, "wall-clock limit (reported as incomplete when hit)")
		bounds   = flag.String("bounds", "", "k=v,k=v harness bounds")
		out      = flag.String("out", "", "result JSON file")
		dump     = flag.String("dump-smt", "", "prefix for SMT-LIB2 transcripts")
		maxFail  = flag.Int("max-failures", 4, "failures kept per obligation in the result")
		samples  = flag.Int("samples", 5, "sample paths kept in the result")
		trail    = flag.String("trail", "", "replay one decision trail (comma-separated)")
		trace    = flag.Bool("trace", false, "trace instructions")
		tags     = flag.String("tags", "", "build tags")
		first    = flag.Bool("stop-at-first", false, "stop at the first failure")
		focus    = flag.String("focus", "", "comma-separated obligation prefixes (e.g. C03.) decided in this run; assertions of other properties are skipped")
		verbose  = flag.Duration("progress", 0, "progress interval")
		minSampleEv = flag.Int("sample-min-events", 3, "minimum number of events of a sampled path")
		inits    = flag.String("init", "", "extra packages whose init functions run")
	)
	flag.Parse()
	cfg := &config{entry: *entry, workers: *workers, maxPaths: *maxPaths, maxSteps: *maxSteps, loopCap: *loopCap,
		solverKind: *solverK, timeoutMs: *timeout, preempt: *preempt, wallLimit: *wall, bounds: map[string]int64{},
		dumpSMT: *dump, maxFailures: *maxFail, sampleCount: *samples, trace: *trace, stopAtFirst: *first, verboseEvery: *verbose}
	if *focus != "" {
		cfg.focus = strings.Split(*focus, ",")
	}
	if *bounds != "" {
		for _, kv := range strings.Split(*bounds, ",") {
			p := strings.SplitN(kv, "=", 2)
			if len(p) != 2 {
				fmt.Fprintln(os.Stderr, "bad bound", kv)
				os.Exit(2)
			}
			v, err := strconv.ParseInt(p[1], 10, 64)
			if err != nil {
				fmt.Fprintln(os.Stderr, "bad bound", kv)
				os.Exit(2)
			}
			cfg.bounds[p[0]] = v
		}
	}
	if *trail != "" {
		cfg.replayTrail = []int{}
		for _, s := range strings.Split(*trail, ",") {
			if s == "" {
				continue
			}
			v, _ := strconv.Atoi(s)
			cfg.replayTrail = append(cfg.replayTrail, v)
		}
	}
	if *pkgDir == "" {
		rel := strings.TrimPrefix(*pkg, "github.com/Flowpack/prunner")
		*pkgDir = filepath.Join(*repo, rel)
	}
	var hdirs []string
	for _, h := range strings.Split(*harness, ",") {
		if h != "" {
			a, _ := filepath.Abs(h)
			hdirs = append(hdirs, a)
		}
	}
	t0 := time.Now()
	p, err := loadProgram(cfg, *repo, *pkg, *pkgDir, hdirs, *tags)
	if err != nil {
		fmt.Fprintln(os.Stderr, "gosx: load failed:", err)
		os.Exit(2)
	}
	if *inits != "" {
		p.initPkgs = append(p.initPkgs, strings.Split(*inits, ",")...)
	}
	loadSecs := time.Since(t0).Seconds()
	sampleBudget = int64(*samples) * 40
	e := &explorer{cfg: cfg, prog: p, res: newResults()}
	e.res.minSampleEvents = *minSampleEv
	e.run()
	wallS := time.Since(t0).Seconds()
	o := &output{Entry: cfg.entry, Package: *pkg, Results: e.res, Bounds: cfg.bounds, LoadSecs: loadSecs, WallSecs: wallS,
		Workers: cfg.workers, SolverKind: cfg.solverKind, LoopCap: cfg.loopCap, MaxSteps: cfg.maxSteps, Preempt: cfg.preempt,
		Solver: map[string]float64{
			"queries": float64(atomic.LoadInt64(&gSolverStats.queries)), "sat": float64(gSolverStats.sat), "unsat": float64(gSolverStats.unsat),
			"unknown": float64(gSolverStats.unknown), "errors": float64(gSolverStats.errors),
			"total_s": float64(gSolverStats.nanos) / 1e9, "max_s": float64(gSolverStats.maxNanos) / 1e9,
		}}
	b, _ := json.MarshalIndent(o, "", " ")
	if *out != "" {
		os.WriteFile(*out, b, 0644)
	} else {
		os.Stdout.Write(b)
		fmt.Println()
	}
	r := e.res
	fmt.Fprintf(os.Stderr, "[gosx] %s: paths=%d %v failures=%d undischarged=%d queries=%d solver=%.1fs wall=%.1fs %s\n", cfg.entry, r.Paths, r.ByStatus, r.FailCount, r.Undischarged, gSolverStats.queries, float64(gSolverStats.nanos)/1e9, wallS, r.Incomplete)
	if len(r.Unsupported) > 0 {
		ks := sortedKeys(r.Unsupported)
		for _, k := range ks {
			fmt.Fprintf(os.Stderr, "[gosx] UNSUPPORTED x%d: %s\n", r.Unsupported[k], k)
		}
	}
	for k, v := range r.ByStatus {
		if (k == "unsupported" || k == "unwind" || k == "abort") && v > 0 {
			os.Exit(3)
		}
	}
	if r.FailCount > 0 {
		os.Exit(1)
	}
}

var sampleBudget int64

// runPath executes the harness entry once along trail prefix t.
func (w *worker) runPath(t []int) *exec {
	ex := &exec{w: w, cfg: w.cfg, trail: append([]int{}, t...), names: map[string]int{}, reach: map[string]bool{},
		funcs: map[*ssa.Function]bool{}, stubs: map[string]int64{}, oblig: map[string]int64{}, assumes: map[string]int64{},
		globals: map[*ssa.Global]*value{}, intercepts: map[string]value{}, mutexes: map[*value]*mutexState{},
		wgs: map[*value]*wgState{}, onces: map[*value]bool{}, syncMaps: map[*value]*smap{}, notes: map[string]string{}}
	i := &interpreter{prog: w.prog.prog, ex: ex, sizes: types.SizesFor("gc", "amd64"), p: w.prog}
	ex.i = i
	if rp := w.prog.prog.ImportedPackage("runtime"); rp != nil {
		i.runtimeErrorString = rp.Type("errorString").Object().Type()
	}
	main := &thread{id: 0, wake: make(chan int, 1), name: "harness"}
	ex.threads = []*thread{main}
	ex.cur = main
	var topFrame *frame
	func() {
		defer func() {
			if p := recover(); p != nil {
				ex.setAbort(i, p, topFrame)
			}
		}()
		topFrame = &frame{i: i, th: main}
		if init := w.prog.main.Func("init"); init != nil {
			ex.inInit = true
			call(i, topFrame, 0, init, nil)
			ex.inInit = false
		}
		call(i, topFrame, 0, w.prog.entry, nil)
	}()
	if ex.abort != nil && ex.inInit && (ex.abort.status == "panic" || ex.abort.status == "deadlock") {
		// package initialisers run in a partial environment (most library initialisers are skipped):
		// a failure there is an engine limitation, never a property violation
		ex.abort = &pathEnd{"unsupported", "package initialiser could not be executed: " + ex.abort.msg}
	}
	main.done = true
	if len(ex.threads) > 1 {
		if ex.abort == nil {
			ex.abort = nil
		}
		prev := ex.abort
		if prev == nil {
			// mark as aborted so that parked threads unwind
			ex.abort = &pathEnd{"ok", ""}
		}
		ex.killThreads()
		if prev == nil {
			ex.abort = nil
		}
	}
	if ex.abort != nil {
		switch ex.abort.status {
		case "panic":
			ex.oblig["no-panic"]++
			ex.event("PANIC " + ex.abort.msg)
			ex.recordFailure("panic", "no-panic", ex.abort.msg, nil)
		case "deadlock":
			ex.oblig["no-deadlock"]++
			ex.event("DEADLOCK " + ex.abort.msg)
			ex.recordFailure("deadlock", "no-deadlock", ex.abort.msg, nil)
		case "infeasible", "failed":
			// not an error
		}
	}
	if ex.unknownPC {
		ex.notes["unknown-branch"] = "a branch feasibility query returned unknown; both sides were kept"
	}
	if ex.abort == nil && len(ex.failures) == 0 && (len(ex.events) > 0 || len(ex.vars)+len(ex.choices) > 0) && atomic.AddInt64(&sampleBudget, -1) >= 0 {
		// keep a concrete instance of this path for the evidence / translator validation
		ex.sync()
		if w.sol.check() == "sat" {
			ex.sampleModel = ex.model()
			evs := make([]string, len(ex.events))
			for i, e := range ex.events {
				evs[i] = e
				for _, t := range ex.evTerms[i] {
					evs[i] = strings.Replace(evs[i], "$", w.sol.getValue(t.e), 1)
				}
			}
			ex.sampleEvents = evs
		}
	}
	if ex.pushedPath {
		w.sol.pop()
		ex.pushedPath = false
	}
	return ex
}

var _ = sort.Strings
