// Copyright 2013 The Go Authors. All rights reserved.
// Use of this source code is governed by a BSD-style
// license that can be found in LICENSE.x-tools.
//
// Adapted from golang.org/x/tools/go/ssa/interp (value.go) for symbolic execution.

package main

// Values
//
// All interpreter values are "boxed" in the empty interface, value.
// The range of possible dynamic types within value are:
//
// - bool, numbers, string              concrete scalars
// - *sym                               symbolic scalar (Bool, BV, String, FP64)
// - *smap                              maps (insertion-ordered association list)
// - *vchan                             channels
// - []value                            slices
// - iface                              interfaces
// - structure                          structs
// - array                              arrays
// - *value                             pointers
// - *ssa.Function, *ssa.Builtin, *closure, *nativeFn   functions
// - tuple                              multi-value results
// - iter                               range iterators
// - **deferred                         address of a frame's defer stack

import (
	"go/token"
	"bytes"
	"fmt"
	"go/types"
	"io"
	"strings"

	"golang.org/x/tools/go/ssa"
)

type value interface{}

type tuple []value

type array []value

type iface struct {
	t types.Type // never an "untyped" type
	v value
}

type structure []value

type iter interface {
	next() tuple
}

type closure struct {
	Fn  *ssa.Function
	Env []value
}

// nativeFn is an engine-provided function value callable from interpreted code.
type nativeFn struct {
	name string
	fn   func(fr *frame, args []value) value
}

type bad struct{}

// vchan is a channel under the engine's scheduler.
type vchan struct {
	buf    []value
	cap    int
	closed bool
	elem   types.Type
	// unbuffered rendezvous support
	recvWaiting int
}

// nil-tolerant variant of types.Identical.
func sameType(x, y types.Type) bool {
	if x == nil {
		return y == nil
	}
	return y != nil && types.Identical(x, y)
}

// eqv returns x == y for type t as a bool or a symbolic Bool.
func eqv(t types.Type, x, y value) value {
	if isBstr(x) || isBstr(y) {
		return bstrBinop(token.EQL, x, y)
	}
	if sx, ok := x.(*sym); ok {
		return mkEqV(sx, litOf(y))
	}
	if sy, ok := y.(*sym); ok {
		return mkEqV(litOf(x), sy)
	}
	switch x := x.(type) {
	case bool:
		return x == y.(bool)
	case int:
		return x == y.(int)
	case int8:
		return x == y.(int8)
	case int16:
		return x == y.(int16)
	case int32:
		return x == y.(int32)
	case int64:
		return x == y.(int64)
	case uint:
		return x == y.(uint)
	case uint8:
		return x == y.(uint8)
	case uint16:
		return x == y.(uint16)
	case uint32:
		return x == y.(uint32)
	case uint64:
		return x == y.(uint64)
	case uintptr:
		return x == y.(uintptr)
	case float32:
		return x == y.(float32)
	case float64:
		return x == y.(float64)
	case complex64:
		return x == y.(complex64)
	case complex128:
		return x == y.(complex128)
	case string:
		return x == y.(string)
	case *value:
		return x == y.(*value)
	case *vchan:
		return x == y.(*vchan)
	case structure:
		ys := y.(structure)
		tStruct := t.Underlying().(*types.Struct)
		var acc value = true
		for i, n := 0, tStruct.NumFields(); i < n; i++ {
			if f := tStruct.Field(i); f.Name() != "_" {
				acc = andV(acc, eqv(f.Type(), x[i], ys[i]))
				if acc == false {
					return false
				}
			}
		}
		return acc
	case array:
		ya := y.(array)
		tElt := t.Underlying().(*types.Array).Elem()
		var acc value = true
		for i, xi := range x {
			acc = andV(acc, eqv(tElt, xi, ya[i]))
			if acc == false {
				return false
			}
		}
		return acc
	case iface:
		yi := y.(iface)
		if !sameType(x.t, yi.t) {
			return false
		}
		if x.t == nil {
			return true
		}
		return eqv(x.t, x.v, yi.v)
	case *ssa.Function:
		if x == nil {
			switch y := y.(type) {
			case *ssa.Function:
				return y == nil
			default:
				return false
			}
		}
	}
	panic(fmt.Sprintf("comparing uncomparable type %s (%T)", t, x))
}

func mkEqV(a, b *sym) value {
	r := mkEq(a, b)
	switch r.e {
	case "true":
		return true
	case "false":
		return false
	}
	return r
}

func andV(a, b value) value {
	if ab, ok := a.(bool); ok {
		if !ab {
			return false
		}
		return b
	}
	if bb, ok := b.(bool); ok {
		if !bb {
			return false
		}
		return a
	}
	return mkAnd(a.(*sym), b.(*sym))
}

func orV(a, b value) value {
	if ab, ok := a.(bool); ok {
		if ab {
			return true
		}
		return b
	}
	if bb, ok := b.(bool); ok {
		if bb {
			return true
		}
		return a
	}
	return mkOr(a.(*sym), b.(*sym))
}

func notV(a value) value {
	if ab, ok := a.(bool); ok {
		return !ab
	}
	return mkNot(a.(*sym))
}

// load returns the value of type T in *addr.
func load(T types.Type, addr *value) value {
	switch T := T.Underlying().(type) {
	case *types.Struct:
		v := (*addr).(structure)
		a := make(structure, len(v))
		for i := range a {
			a[i] = load(T.Field(i).Type(), &v[i])
		}
		return a
	case *types.Array:
		v := (*addr).(array)
		a := make(array, len(v))
		for i := range a {
			a[i] = load(T.Elem(), &v[i])
		}
		return a
	default:
		return *addr
	}
}

// store stores value v of type T into *addr.
func store(T types.Type, addr *value, v value) {
	switch T := T.Underlying().(type) {
	case *types.Struct:
		lhs := (*addr).(structure)
		rhs := v.(structure)
		for i := range lhs {
			store(T.Field(i).Type(), &lhs[i], rhs[i])
		}
	case *types.Array:
		lhs := (*addr).(array)
		rhs := v.(array)
		for i := range lhs {
			store(T.Elem(), &lhs[i], rhs[i])
		}
	default:
		*addr = v
	}
}

// copyVal makes an unaliased copy of an aggregate value of type T.
func copyVal(T types.Type, v value) value {
	return load(T, &v)
}

func writeValue(buf *bytes.Buffer, v value) {
	switch v := v.(type) {
	case nil, bool, int, int8, int16, int32, int64, uint, uint8, uint16, uint32, uint64, uintptr, float32, float64, complex64, complex128, string:
		fmt.Fprintf(buf, "%v", v)
	case *sym:
		buf.WriteString(v.e)
	case *smap:
		buf.WriteString("map[")
		if v != nil {
			for i := range v.keys {
				if i > 0 {
					buf.WriteString(" ")
				}
				writeValue(buf, v.keys[i])
				buf.WriteString(":")
				writeValue(buf, v.vals[i])
			}
		}
		buf.WriteString("]")
	case *vchan:
		fmt.Fprintf(buf, "chan(%p)", v)
	case *value:
		if v == nil {
			buf.WriteString("<nil>")
		} else {
			fmt.Fprintf(buf, "%p", v)
		}
	case iface:
		fmt.Fprintf(buf, "(%s, ", v.t)
		writeValue(buf, v.v)
		buf.WriteString(")")
	case structure:
		buf.WriteString("{")
		for i, e := range v {
			if i > 0 {
				buf.WriteString(" ")
			}
			writeValue(buf, e)
		}
		buf.WriteString("}")
	case array:
		buf.WriteString("[")
		for i, e := range v {
			if i > 0 {
				buf.WriteString(" ")
			}
			writeValue(buf, e)
		}
		buf.WriteString("]")
	case []value:
		buf.WriteString("[")
		for i, e := range v {
			if i > 0 {
				buf.WriteString(" ")
			}
			writeValue(buf, e)
		}
		buf.WriteString("]")
	case *ssa.Function, *ssa.Builtin, *closure, *nativeFn:
		fmt.Fprintf(buf, "%p", v)
	case tuple:
		buf.WriteString("(")
		for i, e := range v {
			if i > 0 {
				buf.WriteString(", ")
			}
			writeValue(buf, e)
		}
		buf.WriteString(")")
	default:
		fmt.Fprintf(buf, "<%T>", v)
	}
}

func toString(v value) string {
	var b bytes.Buffer
	writeValue(&b, v)
	return b.String()
}

// ------------------------------------------------------------------------
// Iterators

type stringIter struct {
	*strings.Reader
	i int
}

func (it *stringIter) next() tuple {
	okv := make(tuple, 3)
	ch, n, err := it.ReadRune()
	ok := err != io.EOF
	okv[0] = ok
	if ok {
		okv[1] = it.i
		okv[2] = ch
	}
	it.i += n
	return okv
}

// ------------------------------------------------------------------------
// Maps: insertion-ordered association lists; keys pairwise distinct under the path condition.

type smap struct {
	kt     types.Type
	keys   []value
	vals   []value
	ids    []int
	nextID int
}

func (m *smap) length() int {
	if m == nil {
		return 0
	}
	return len(m.keys)
}

// find returns the index of key k, or -1. Symbolic key comparisons fork.
func (m *smap) find(ex *exec, k value) int {
	if m == nil {
		return -1
	}
	for i, kk := range m.keys {
		if ex.truth(eqv(m.kt, kk, k)) {
			return i
		}
	}
	return -1
}

func (m *smap) fixIDs() {
	for len(m.ids) < len(m.keys) {
		m.nextID++
		m.ids = append(m.ids, m.nextID)
	}
}

func (m *smap) insert(ex *exec, k, v value) {
	m.fixIDs()
	if i := m.find(ex, k); i >= 0 {
		m.vals[i] = v
		return
	}
	m.keys = append(m.keys, k)
	m.vals = append(m.vals, v)
	m.nextID++
	m.ids = append(m.ids, m.nextID)
}

func (m *smap) remove(ex *exec, k value) {
	m.fixIDs()
	if i := m.find(ex, k); i >= 0 {
		m.keys = append(m.keys[:i:i], m.keys[i+1:]...)
		m.vals = append(m.vals[:i:i], m.vals[i+1:]...)
		m.ids = append(m.ids[:i:i], m.ids[i+1:]...)
	}
}

// smapIter iterates over the entries present when the range started; entries deleted before
// they are reached are skipped, updated values are seen (Go semantics).
type smapIter struct {
	m     *smap
	ids   []int
	order []int
	i     int
}

func (it *smapIter) next() tuple {
	for it.i < len(it.order) {
		id := it.ids[it.order[it.i]]
		it.i++
		for j, x := range it.m.ids {
			if x == id {
				return tuple{true, it.m.keys[j], it.m.vals[j]}
			}
		}
	}
	return tuple{false, nil, nil}
}
