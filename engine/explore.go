package main

// Path exploration: re-execution DFS over decision trails, one solver per worker.

import (
	"fmt"
	"hash/fnv"
	"io"
	"os"
	"sort"
	"strings"
	"sync"
	"sync/atomic"
	"time"

	"golang.org/x/tools/go/ssa"
)

// ---- path termination signals (Go panics caught at the top of a path) ----

type pathEnd struct {
	status string // ok, infeasible, unsupported, unwind, deadlock, abort, panic
	msg    string
}

type unsupportedErr struct{ msg string }

func unsupported(msg string) unsupportedErr { return unsupportedErr{msg} }

type pathAbort struct{} // delivered to parked threads when the path is over

// ---- configuration ----

type config struct {
	entry        string
	workers      int
	maxPaths     int64
	maxSteps     int64 // per path
	loopCap      int   // visits of one block per frame
	solverKind   string
	timeoutMs    int
	preempt      int // preemption bound (threaded mode)
	wallLimit    time.Duration
	bounds       map[string]int64
	dumpSMT      string
	maxFailures  int
	sampleCount  int
	replayTrail  []int
	trace        bool
	permuteMaps  bool
	stopAtFirst  bool
	verboseEvery time.Duration
	focus        []string // obligation prefixes decided in this run; obligations of other properties are skipped
}

// ---- results ----

type failure struct {
	Obligation string            `json:"obligation"`
	Message    string            `json:"message"`
	Kind       string            `json:"kind"` // assert | panic | deadlock
	Model      map[string]string `json:"model"`
	Trail      []int             `json:"trail"`
	Events     []string          `json:"events"`
	Choices    []choiceRec       `json:"choices"`
	Where      string            `json:"where,omitempty"`
}

type choiceRec struct {
	Name string `json:"name"`
	N    int    `json:"n"`
	V    int    `json:"v"`
}

type pathSample struct {
	Choices   []choiceRec       `json:"choices,omitempty"`
	Model     map[string]string `json:"model,omitempty"`
	Events    []string `json:"events"`
	PCSize    int      `json:"pc_size"`
	SymVars   int      `json:"sym_vars"`
	Decisions int      `json:"decisions"`
	Status    string   `json:"status"`
}

type results struct {
	mu           sync.Mutex
	Paths        int64             `json:"paths"`
	ByStatus     map[string]int64  `json:"by_status"`
	Decisions    int64             `json:"decisions"`
	Failures     []*failure        `json:"failures"`
	FailCount    int64             `json:"fail_count"`
	Reach        map[string]int64  `json:"reach"`
	Unsupported  map[string]int64  `json:"unsupported"`
	Undischarged int64             `json:"undischarged"`
	Discharged   int64             `json:"discharged"`
	Obligations  map[string]int64  `json:"obligations"`
	Functions    map[string]int    `json:"functions"`
	Samples      []pathSample      `json:"samples"`
	Incomplete   string            `json:"incomplete,omitempty"`
	MaxSymVars   int               `json:"max_sym_vars"`
	Steps        int64             `json:"steps"`
	Assumptions  map[string]int64  `json:"assumptions"`
	Stubs        map[string]int64  `json:"stubs"`
	Notes        map[string]string `json:"notes"`
	StatusTrail  map[string]string `json:"status_trail"`
	StatusEvents map[string][]string `json:"status_events"`
	failKeys     map[string]bool
	minSampleEvents int
}

func newResults() *results {
	return &results{ByStatus: map[string]int64{}, Reach: map[string]int64{}, Unsupported: map[string]int64{},
		Functions: map[string]int{}, Obligations: map[string]int64{}, Assumptions: map[string]int64{},
		Stubs: map[string]int64{}, Notes: map[string]string{}, failKeys: map[string]bool{}, StatusTrail: map[string]string{}, StatusEvents: map[string][]string{}}
}

// ---- query cache ----

var queryCache sync.Map // string -> string

// ---- per-path executor ----

type symvar struct {
	name string
	k    sortK
	w    int
}

type exec struct {
	w   *worker
	cfg *config
	i   *interpreter

	trail   []int
	pos     int
	alts    [][]int
	pc      []*sym
	pcHash  uint64
	synced  int
	vars    []symvar
	dsynced int
	names   map[string]int

	steps      int64
	events     []string
	evTerms    [][]*sym // symbolic terms referenced by events, for model evaluation
	choices    []choiceRec
	reach      map[string]bool
	funcs      map[*ssa.Function]bool
	stubs      map[string]int64
	oblig      map[string]int64
	assumes    map[string]int64
	failures   []*failure
	undisch    int64
	disch      int64
	unknownPC  bool
	pushedPath bool

	// environment state
	globals    map[*ssa.Global]*value
	intercepts map[string]value
	spawned    []*spawnRec
	mutexes    map[*value]*mutexState
	wgs        map[*value]*wgState
	onces      map[*value]bool
	syncMaps   map[*value]*smap
	goMode     int // 0: pending list (L3), 1: threads
	lockLog    bool

	// threads
	threads     []*thread
	cur         *thread
	preemptions int
	visibleSeq  int64
	abort       *pathEnd
	tg          sync.WaitGroup

	bounds  map[string]int64
	notes   map[string]string
	clock   value
	inInit  bool
	builders map[*value]*[]value
	pcSet   map[string]bool
	sampleModel map[string]string
	sampleEvents []string
	uuidCtr int
	track   *lockTrack
	permute bool
}

type spawnRec struct {
	fn   value
	args []value
	ran  bool
	tag  string
}

func (ex *exec) fresh(name string, k sortK, w int) *sym {
	n := ex.names[name]
	ex.names[name] = n + 1
	full := name
	if n > 0 {
		full = fmt.Sprintf("%s#%d", name, n)
	}
	full = "|" + strings.NewReplacer("|", "_", "\\", "_").Replace(full) + "|"
	ex.vars = append(ex.vars, symvar{full, k, w})
	return &sym{k: k, w: w, e: full}
}

func (ex *exec) addPC(c *sym) {
	if c.e == "true" {
		return
	}
	if ex.pcSet == nil {
		ex.pcSet = map[string]bool{}
	}
	if ex.pcSet[c.e] {
		return
	}
	ex.pcSet[c.e] = true
	ex.pc = append(ex.pc, c)
	h := fnv.New64a()
	var b [8]byte
	for i := 0; i < 8; i++ {
		b[i] = byte(ex.pcHash >> (8 * uint(i)))
	}
	h.Write(b[:])
	io.WriteString(h, c.e)
	ex.pcHash = h.Sum64()
}

func (ex *exec) sync() {
	s := ex.w.sol
	if !ex.pushedPath {
		s.push()
		ex.pushedPath = true
	}
	for ; ex.dsynced < len(ex.vars); ex.dsynced++ {
		v := ex.vars[ex.dsynced]
		s.send(fmt.Sprintf("(declare-const %s %s)", v.name, sortName(v.k, v.w)))
	}
	for ; ex.synced < len(ex.pc); ex.synced++ {
		s.send("(assert " + ex.pc[ex.synced].e + ")")
	}
}

// sat decides PC ∧ c. Returns sat|unsat|unknown|error.
func (ex *exec) sat(c *sym) string {
	if c.e == "true" && len(ex.pc) == 0 {
		return "sat"
	}
	if c.e == "false" {
		return "unsat"
	}
	if ex.pcSet[c.e] {
		return "sat"
	}
	if ex.pcSet[mkNot(c).e] {
		return "unsat"
	}
	key := fmt.Sprintf("%x|%d|%s", ex.pcHash, len(ex.pc), c.e)
	if r, ok := queryCache.Load(key); ok {
		return r.(string)
	}
	ex.sync()
	s := ex.w.sol
	s.push()
	s.send("(assert " + c.e + ")")
	tq := time.Now()
	r := s.check()
	if d := time.Since(tq); d > 2*time.Second && os.Getenv("GOSX_SLOW") != "" {
		fmt.Fprintf(os.Stderr, "[slow %.1fs %s] pc=%d cond=%s\n", d.Seconds(), r, len(ex.pc), c.e)
		if os.Getenv("GOSX_SLOW") == "2" {
			for _, p := range ex.pc {
				fmt.Fprintf(os.Stderr, "    %s\n", p.e)
			}
		}
	}
	s.pop()
	if s.dead {
		ex.w.restartSolver()
		ex.pushedPath = false
		ex.dsynced, ex.synced = 0, 0
		r = "error"
	}
	if r == "sat" || r == "unsat" {
		queryCache.Store(key, r)
	}
	return r
}

// decide records an n-way decision. feasible(i) is consulted only beyond the replayed prefix.
func (ex *exec) decide(n int, feasible func(i int) bool) int {
	if ex.pos < len(ex.trail) {
		c := ex.trail[ex.pos]
		ex.pos++
		if c >= n {
			panic(pathEnd{"abort", fmt.Sprintf("trail divergence: choice %d of %d", c, n)})
		}
		return c
	}
	first := -1
	for i := 0; i < n; i++ {
		if feasible != nil && !feasible(i) {
			continue
		}
		if first < 0 {
			first = i
			continue
		}
		alt := make([]int, ex.pos+1)
		copy(alt, ex.trail[:ex.pos])
		alt[ex.pos] = i
		ex.alts = append(ex.alts, alt)
	}
	if first < 0 {
		panic(pathEnd{"infeasible", "no feasible alternative"})
	}
	ex.trail = append(ex.trail, first)
	ex.pos++
	return first
}

// branch decides a symbolic condition, forking if both sides are feasible.
func (ex *exec) branch(c *sym) bool {
	switch c.e {
	case "true":
		return true
	case "false":
		return false
	}
	var tRes string
	ch := ex.decide(2, func(i int) bool {
		if i == 0 {
			tRes = ex.sat(c)
			if tRes == "unknown" || tRes == "error" {
				ex.unknownPC = true
			}
			return tRes != "unsat"
		}
		if tRes == "unsat" {
			return true // PC is satisfiable, so the other side must be
		}
		r := ex.sat(mkNot(c))
		if r == "unknown" || r == "error" {
			ex.unknownPC = true
		}
		return r != "unsat"
	})
	if ch == 0 {
		ex.addPC(c)
		return true
	}
	ex.addPC(mkNot(c))
	return false
}

// truth turns a bool-or-symbolic value into a concrete bool (forking).
func (ex *exec) truth(v value) bool {
	switch v := v.(type) {
	case bool:
		return v
	case *sym:
		return ex.branch(v)
	}
	panic(fmt.Sprintf("truth: %T", v))
}

// choose is an explicit harness decision (verifChoose) or engine decision.
func (ex *exec) choose(name string, n int) int {
	if n <= 0 {
		panic(pathEnd{"infeasible", "choose(0)"})
	}
	c := ex.decide(n, nil)
	ex.choices = append(ex.choices, choiceRec{name, n, c})
	return c
}

// forkInt concretises a symbolic integer known to lie in [0,n): returns -1 for out of range.
func (ex *exec) forkIndex(idx *sym, n int, unsigned bool) int {
	conds := make([]*sym, n+1)
	for i := 0; i < n; i++ {
		conds[i] = mkEq(idx, bvLit(uint64(i), idx.w))
	}
	oob := boolLit(true)
	for i := 0; i < n; i++ {
		oob = mkAnd(oob, mkNot(conds[i]))
	}
	conds[n] = oob
	c := ex.decide(n+1, func(i int) bool {
		r := ex.sat(conds[i])
		if r == "unknown" || r == "error" {
			ex.unknownPC = true
		}
		return r != "unsat"
	})
	ex.addPC(conds[c])
	if c == n {
		return -1
	}
	return c
}

func (ex *exec) event(s string, terms ...*sym) {
	ex.events = append(ex.events, s)
	ex.evTerms = append(ex.evTerms, terms)
}

// model extracts values for all declared variables (solver must be in a sat state).
func (ex *exec) model() map[string]string {
	m := map[string]string{}
	for _, v := range ex.vars {
		m[strings.Trim(v.name, "|")] = ex.w.sol.getValue(v.name)
	}
	return m
}

func (ex *exec) recordFailure(kind, oblig, msg string, negCond *sym) {
	f := &failure{Obligation: oblig, Message: msg, Kind: kind}
	// obtain a model of PC ∧ negCond
	ex.sync()
	s := ex.w.sol
	s.push()
	if negCond != nil {
		s.send("(assert " + negCond.e + ")")
	}
	r := s.check()
	if r == "sat" {
		f.Model = ex.model()
		// evaluate symbolic terms inside events
		evs := make([]string, len(ex.events))
		for i, e := range ex.events {
			evs[i] = e
			for _, t := range ex.evTerms[i] {
				evs[i] = strings.Replace(evs[i], "$", s.getValue(t.e), 1)
			}
		}
		f.Events = evs
	} else if r == "unsat" {
		// the path itself is infeasible (it was kept after an inconclusive branch query)
		s.pop()
		panic(pathEnd{"infeasible", "path condition unsatisfiable"})
	} else {
		s.pop()
		ex.undisch++
		ex.notes["inconclusive-failure"] = "a failing assertion could not be confirmed (solver: " + r + "); counted as undischarged"
		return
	}
	s.pop()
	f.Trail = append([]int{}, ex.trail[:ex.pos]...)
	f.Choices = append([]choiceRec{}, ex.choices...)
	ex.failures = append(ex.failures, f)
}

// assert implements verifAssert: discharge or record a candidate counterexample, then assume c.
// outOfFocus: the obligation belongs to another property ("Cnn." prefix not among the focus prefixes).
// Such an assertion is neither checked nor assumed here (the property's own check decides it), so
// that its failure cannot cut the paths on which this run's obligations would fail.
func (ex *exec) outOfFocus(oblig string) bool {
	f := ex.w.cfg.focus
	if len(f) == 0 || len(oblig) < 4 || oblig[0] != 'C' || oblig[3] != '.' || oblig[1] < '0' || oblig[1] > '9' || oblig[2] < '0' || oblig[2] > '9' {
		return false
	}
	for _, p := range f {
		if strings.HasPrefix(oblig, p) {
			return false
		}
	}
	return true
}

func (ex *exec) assert(c value, oblig string) {
	if ex.outOfFocus(oblig) {
		return
	}
	ex.oblig[oblig]++
	switch c := c.(type) {
	case bool:
		if c {
			ex.disch++
			return
		}
		// record and go on: later obligations on this path are still checked
		ex.recordFailure("assert", oblig, "assertion is false on this path", nil)
		return
	case *sym:
		r := ex.sat(mkNot(c))
		switch r {
		case "unsat":
			ex.disch++
			return
		case "sat":
			ex.recordFailure("assert", oblig, "assertion can be false on this path", mkNot(c))
			// continue with the assertion assumed, if that is still possible
			if ex.sat(c) == "unsat" {
				panic(pathEnd{"failed", oblig})
			}
			ex.addPC(c)
		default:
			ex.undisch++
			ex.addPC(c)
		}
	}
}

func (ex *exec) assume(c value, what string) {
	ex.assumes[what]++
	switch c := c.(type) {
	case bool:
		if !c {
			panic(pathEnd{"infeasible", "assume false"})
		}
	case *sym:
		r := ex.sat(c)
		if r == "unsat" {
			panic(pathEnd{"infeasible", "assume unsat"})
		}
		if r != "sat" {
			ex.unknownPC = true
		}
		ex.addPC(c)
	}
}

// ---- workers ----

type worker struct {
	id   int
	sol  *solver
	cfg  *config
	prog *program
	smt  io.Writer
}

func (w *worker) restartSolver() {
	if w.sol != nil {
		w.sol.close()
	}
	s, err := newSolver(w.cfg.solverKind, w.cfg.timeoutMs, w.smt)
	if err != nil {
		fmt.Fprintln(os.Stderr, "cannot start solver:", err)
		os.Exit(2)
	}
	w.sol = s
}

type explorer struct {
	cfg     *config
	prog    *program
	res     *results
	mu      sync.Mutex
	cond    *sync.Cond
	stack   [][]int
	active  int
	stopped bool
	start   time.Time
	paths   int64
}

func (e *explorer) pop() ([]int, bool) {
	e.mu.Lock()
	defer e.mu.Unlock()
	for {
		if e.stopped {
			return nil, false
		}
		if n := len(e.stack); n > 0 {
			t := e.stack[n-1]
			e.stack = e.stack[:n-1]
			e.active++
			return t, true
		}
		if e.active == 0 {
			e.cond.Broadcast()
			return nil, false
		}
		e.cond.Wait()
	}
}

func (e *explorer) done(alts [][]int) {
	e.mu.Lock()
	// push in reverse so that the first alternative is explored first
	for i := len(alts) - 1; i >= 0; i-- {
		e.stack = append(e.stack, alts[i])
	}
	e.active--
	e.cond.Broadcast()
	e.mu.Unlock()
}

func (e *explorer) stop(reason string) {
	e.mu.Lock()
	if !e.stopped {
		e.stopped = true
		e.res.mu.Lock()
		if e.res.Incomplete == "" {
			e.res.Incomplete = reason
		}
		e.res.mu.Unlock()
	}
	e.cond.Broadcast()
	e.mu.Unlock()
}

func (e *explorer) run() {
	e.cond = sync.NewCond(&e.mu)
	e.start = time.Now()
	if e.cfg.replayTrail != nil {
		e.stack = [][]int{e.cfg.replayTrail}
	} else {
		e.stack = [][]int{{}}
	}
	var wg sync.WaitGroup
	nw := e.cfg.workers
	if e.cfg.replayTrail != nil {
		nw = 1
	}
	for i := 0; i < nw; i++ {
		wg.Add(1)
		go func(id int) {
			defer wg.Done()
			w := &worker{id: id, cfg: e.cfg, prog: e.prog}
			if e.cfg.dumpSMT != "" {
				f, err := os.Create(fmt.Sprintf("%s.%d.smt2", e.cfg.dumpSMT, id))
				if err == nil {
					defer f.Close()
					w.smt = f
				}
			}
			w.restartSolver()
			defer w.sol.close()
			for {
				t, ok := e.pop()
				if !ok {
					return
				}
				ex := w.runPath(t)
				e.merge(ex)
				alts := ex.alts
				if e.cfg.replayTrail != nil {
					alts = nil
				}
				e.done(alts)
				n := atomic.AddInt64(&e.paths, 1)
				if e.cfg.maxPaths > 0 && n >= e.cfg.maxPaths {
					e.stop(fmt.Sprintf("path budget %d exhausted", e.cfg.maxPaths))
				}
				if e.cfg.wallLimit > 0 && time.Since(e.start) > e.cfg.wallLimit {
					e.stop(fmt.Sprintf("wall limit %s reached", e.cfg.wallLimit))
				}
			}
		}(i)
	}
	if e.cfg.verboseEvery > 0 {
		go func() {
			for {
				time.Sleep(e.cfg.verboseEvery)
				e.mu.Lock()
				st, act, stop := len(e.stack), e.active, e.stopped
				e.mu.Unlock()
				fmt.Fprintf(os.Stderr, "[gosx] %s paths=%d stack=%d active=%d queries=%d\n", time.Since(e.start).Round(time.Second), atomic.LoadInt64(&e.paths), st, act, atomic.LoadInt64(&gSolverStats.queries))
				if stop || (st == 0 && act == 0) {
					return
				}
			}
		}()
	}
	wg.Wait()
}

func (e *explorer) merge(ex *exec) {
	r := e.res
	r.mu.Lock()
	defer r.mu.Unlock()
	r.Paths++
	st := "ok"
	if ex.abort != nil {
		st = ex.abort.status
	}
	r.ByStatus[st]++
	if _, ok := r.StatusTrail[st]; !ok && st != "ok" {
		parts := make([]string, ex.pos)
		for i := 0; i < ex.pos; i++ {
			parts[i] = fmt.Sprint(ex.trail[i])
		}
		r.StatusTrail[st] = strings.Join(parts, ",")
		r.StatusEvents[st] = append([]string{}, ex.events...)
	}
	r.Decisions += int64(ex.pos)
	r.Steps += ex.steps
	for k := range ex.reach {
		r.Reach[k]++
	}
	for k, v := range ex.stubs {
		r.Stubs[k] += v
	}
	for k, v := range ex.oblig {
		r.Obligations[k] += v
	}
	for k, v := range ex.assumes {
		r.Assumptions[k] += v
	}
	for k, v := range ex.notes {
		r.Notes[k] = v
	}
	r.Undischarged += ex.undisch
	r.Discharged += ex.disch
	if len(ex.vars) > r.MaxSymVars {
		r.MaxSymVars = len(ex.vars)
	}
	for f := range ex.funcs {
		if _, ok := r.Functions[f.String()]; !ok {
			n := 0
			for _, b := range f.Blocks {
				n += len(b.Instrs)
			}
			r.Functions[f.String()] = n
		}
	}
	if st == "unsupported" && ex.abort != nil {
		r.Unsupported[ex.abort.msg]++
	}
	if st == "unwind" && ex.abort != nil {
		r.Unsupported["UNWIND: "+ex.abort.msg]++
	}
	for _, f := range ex.failures {
		r.FailCount++
		key := f.Obligation + "|" + strings.Join(f.Events, ";")
		if r.failKeys[key] {
			continue
		}
		r.failKeys[key] = true
		// keep the shortest few traces per obligation
		n, worst, worstLen := 0, -1, -1
		for i, g := range r.Failures {
			if g.Obligation == f.Obligation {
				n++
				if len(g.Events) > worstLen {
					worst, worstLen = i, len(g.Events)
				}
			}
		}
		if n < e.cfg.maxFailures {
			r.Failures = append(r.Failures, f)
		} else if len(f.Events) < worstLen {
			r.Failures[worst] = f
		}
	}
	if len(ex.failures) > 0 && e.cfg.stopAtFirst {
		go e.stop("stopped at first failure")
	}
	if len(r.Samples) < e.cfg.sampleCount && st == "ok" && len(ex.failures) == 0 && ex.sampleModel != nil && (len(ex.events) >= r.minSampleEvents || (len(ex.events) == 0 && len(ex.vars)+len(ex.choices) > 0)) {
		r.Samples = append(r.Samples, pathSample{Choices: append([]choiceRec{}, ex.choices...), Model: ex.sampleModel, Events: ex.sampleEvents, PCSize: len(ex.pc), SymVars: len(ex.vars), Decisions: ex.pos, Status: st})
	}
}

func sortedKeys(m map[string]int64) []string {
	var ks []string
	for k := range m {
		ks = append(ks, k)
	}
	sort.Strings(ks)
	return ks
}
