package main

// Symbolic scalars: SMT-LIB2 terms over Bool, fixed-width bit-vectors and strings.
// Terms are plain strings (hash-consing by string identity); concrete operands are
// never turned into terms until they meet a symbolic one, so most of a run is
// ordinary interpretation.

import (
	"fmt"
	"go/token"
	"go/types"
	"math"
	"strings"
)

type sortK int

const (
	sBool sortK = iota
	sBV
	sStr
	sFP // float64 (only for the C10 float kernel)
)

// sym is a symbolic scalar value. Immutable.
type sym struct {
	k sortK
	w int    // bit width for sBV
	e string // SMT-LIB2 term
}

func (s *sym) String() string { return s.e }

func sortName(k sortK, w int) string {
	switch k {
	case sBool:
		return "Bool"
	case sBV:
		return fmt.Sprintf("(_ BitVec %d)", w)
	case sStr:
		return "String"
	case sFP:
		return "(_ FloatingPoint 11 53)"
	}
	panic("bad sort")
}

func bvLit(u uint64, w int) *sym {
	if w < 64 {
		u &= (uint64(1) << uint(w)) - 1
	}
	return &sym{k: sBV, w: w, e: fmt.Sprintf("(_ bv%d %d)", u, w)}
}

func boolLit(b bool) *sym {
	if b {
		return &sym{k: sBool, e: "true"}
	}
	return &sym{k: sBool, e: "false"}
}

func strLit(s string) *sym {
	var b strings.Builder
	b.WriteByte('"')
	for i := 0; i < len(s); i++ {
		c := s[i]
		switch {
		case c == '"':
			b.WriteString(`""`)
		case c == '\\':
			b.WriteString(`\u{5c}`)
		case c >= 0x20 && c < 0x7f:
			b.WriteByte(c)
		default:
			fmt.Fprintf(&b, `\u{%x}`, c)
		}
	}
	b.WriteByte('"')
	return &sym{k: sStr, e: b.String()}
}

// litOf turns a concrete scalar into a literal term.
func litOf(v value) *sym {
	switch x := v.(type) {
	case *sym:
		return x
	case bool:
		return boolLit(x)
	case int:
		return bvLit(uint64(x), 64)
	case int8:
		return bvLit(uint64(x), 8)
	case int16:
		return bvLit(uint64(x), 16)
	case int32:
		return bvLit(uint64(x), 32)
	case int64:
		return bvLit(uint64(x), 64)
	case uint:
		return bvLit(uint64(x), 64)
	case uint8:
		return bvLit(uint64(x), 8)
	case uint16:
		return bvLit(uint64(x), 16)
	case uint32:
		return bvLit(uint64(x), 32)
	case uint64:
		return bvLit(x, 64)
	case uintptr:
		return bvLit(uint64(x), 64)
	case string:
		return strLit(x)
	case float64:
		b := math.Float64bits(x)
		return &sym{k: sFP, e: fmt.Sprintf("(fp #b%01b #b%011b #b%052b)", b>>63, (b>>52)&0x7ff, b&((1<<52)-1))}
	}
	panic(unsupported(fmt.Sprintf("litOf: %T", v)))
}

func isSym(v value) bool { _, ok := v.(*sym); return ok }

func basicOf(t types.Type) *types.Basic {
	b, _ := t.Underlying().(*types.Basic)
	return b
}

func isUnsignedT(t types.Type) bool {
	b := basicOf(t)
	return b != nil && b.Info()&types.IsUnsigned != 0
}

func widthOfBasic(b *types.Basic) int {
	switch b.Kind() {
	case types.Int8, types.Uint8:
		return 8
	case types.Int16, types.Uint16:
		return 16
	case types.Int32, types.Uint32:
		return 32
	case types.Int, types.Uint, types.Int64, types.Uint64, types.Uintptr, types.UntypedInt:
		return 64
	case types.UntypedRune:
		return 32
	}
	return 0
}

func mkNot(a *sym) *sym {
	switch a.e {
	case "true":
		return boolLit(false)
	case "false":
		return boolLit(true)
	}
	if strings.HasPrefix(a.e, "(not ") {
		return &sym{k: sBool, e: a.e[5 : len(a.e)-1]}
	}
	return &sym{k: sBool, e: "(not " + a.e + ")"}
}

func mkAnd(a, b *sym) *sym {
	if a.e == "true" {
		return b
	}
	if b.e == "true" {
		return a
	}
	if a.e == "false" || b.e == "false" {
		return boolLit(false)
	}
	return &sym{k: sBool, e: "(and " + a.e + " " + b.e + ")"}
}

func mkOr(a, b *sym) *sym {
	if a.e == "false" {
		return b
	}
	if b.e == "false" {
		return a
	}
	if a.e == "true" || b.e == "true" {
		return boolLit(true)
	}
	return &sym{k: sBool, e: "(or " + a.e + " " + b.e + ")"}
}

func mkEq(a, b *sym) *sym {
	if a.e == b.e {
		return boolLit(true)
	}
	if a.k == sFP {
		return &sym{k: sBool, e: "(fp.eq " + a.e + " " + b.e + ")"}
	}
	return &sym{k: sBool, e: "(= " + a.e + " " + b.e + ")"}
}

func mkIte(c, a, b *sym) *sym {
	if c.e == "true" {
		return a
	}
	if c.e == "false" {
		return b
	}
	return &sym{k: a.k, w: a.w, e: "(ite " + c.e + " " + a.e + " " + b.e + ")"}
}

// symBinop builds the term for x op y where at least one operand is symbolic.
// t is the static Go type of the operands (shifts: of x).
func symBinop(op token.Token, t types.Type, x, y value) value {
	a := litOf(x)
	var b *sym
	if op == token.SHL || op == token.SHR {
		// shift count has its own type; bring it to a's width
		b = litOf(y)
		if b.k != sBV {
			panic(unsupported("shift count sort"))
		}
		if b.w < a.w {
			b = &sym{k: sBV, w: a.w, e: fmt.Sprintf("((_ zero_extend %d) %s)", a.w-b.w, b.e)}
		} else if b.w > a.w {
			// count wider than the operand: if any high bit of the count is set the shift is >= the
			// operand's width anyway (result 0, or sign fill for an arithmetic right shift); otherwise
			// shift by the low bits
			hi := fmt.Sprintf("((_ extract %d %d) %s)", b.w-1, a.w, b.e)
			lo := &sym{k: sBV, w: a.w, e: fmt.Sprintf("((_ extract %d 0) %s)", a.w-1, b.e)}
			big := &sym{k: sBool, e: fmt.Sprintf("(not (= %s #b%s))", hi, strings.Repeat("0", b.w-a.w))}
			full := bvLit(uint64(a.w), a.w)
			b = mkIte(big, full, lo)
		}
	} else {
		b = litOf(y)
	}
	uns := isUnsignedT(t)
	bin := func(name string) value { return &sym{k: a.k, w: a.w, e: "(" + name + " " + a.e + " " + b.e + ")"} }
	cmp := func(name string) value { return &sym{k: sBool, e: "(" + name + " " + a.e + " " + b.e + ")"} }
	switch a.k {
	case sBool:
		switch op {
		case token.EQL:
			return mkEq(a, b)
		case token.NEQ:
			return mkNot(mkEq(a, b))
		case token.AND, token.LAND:
			return mkAnd(a, b)
		case token.OR, token.LOR:
			return mkOr(a, b)
		}
	case sStr:
		switch op {
		case token.ADD:
			return &sym{k: sStr, e: "(str.++ " + a.e + " " + b.e + ")"}
		case token.EQL:
			return mkEq(a, b)
		case token.NEQ:
			return mkNot(mkEq(a, b))
		case token.LSS:
			return cmp("str.<")
		case token.LEQ:
			return cmp("str.<=")
		case token.GTR:
			return &sym{k: sBool, e: "(str.< " + b.e + " " + a.e + ")"}
		case token.GEQ:
			return &sym{k: sBool, e: "(str.<= " + b.e + " " + a.e + ")"}
		}
	case sFP:
		switch op {
		case token.ADD:
			return &sym{k: sFP, e: "(fp.add RNE " + a.e + " " + b.e + ")"}
		case token.SUB:
			return &sym{k: sFP, e: "(fp.sub RNE " + a.e + " " + b.e + ")"}
		case token.MUL:
			return &sym{k: sFP, e: "(fp.mul RNE " + a.e + " " + b.e + ")"}
		case token.QUO:
			return &sym{k: sFP, e: "(fp.div RNE " + a.e + " " + b.e + ")"}
		case token.EQL:
			return cmp("fp.eq")
		case token.NEQ:
			return mkNot(cmp("fp.eq").(*sym))
		case token.LSS:
			return cmp("fp.lt")
		case token.LEQ:
			return cmp("fp.leq")
		case token.GTR:
			return cmp("fp.gt")
		case token.GEQ:
			return cmp("fp.geq")
		}
	case sBV:
		if b.k != sBV || b.w != a.w {
			panic(unsupported(fmt.Sprintf("binop %s: width mismatch %d/%d (%s | %s)", op, a.w, b.w, a.e, b.e)))
		}
		switch op {
		case token.ADD:
			return bin("bvadd")
		case token.SUB:
			return bin("bvsub")
		case token.MUL:
			return bin("bvmul")
		case token.QUO:
			if uns {
				return bin("bvudiv")
			}
			return bin("bvsdiv")
		case token.REM:
			if uns {
				return bin("bvurem")
			}
			return bin("bvsrem")
		case token.AND:
			return bin("bvand")
		case token.OR:
			return bin("bvor")
		case token.XOR:
			return bin("bvxor")
		case token.AND_NOT:
			return &sym{k: sBV, w: a.w, e: "(bvand " + a.e + " (bvnot " + b.e + "))"}
		case token.SHL:
			return bin("bvshl")
		case token.SHR:
			if uns {
				return bin("bvlshr")
			}
			return bin("bvashr")
		case token.EQL:
			return mkEq(a, b)
		case token.NEQ:
			return mkNot(mkEq(a, b))
		case token.LSS:
			if uns {
				return cmp("bvult")
			}
			return cmp("bvslt")
		case token.LEQ:
			if uns {
				return cmp("bvule")
			}
			return cmp("bvsle")
		case token.GTR:
			if uns {
				return cmp("bvugt")
			}
			return cmp("bvsgt")
		case token.GEQ:
			if uns {
				return cmp("bvuge")
			}
			return cmp("bvsge")
		}
	}
	panic(unsupported(fmt.Sprintf("symbolic binop %s on sort %d", op, a.k)))
}

// symConvInt converts a symbolic integer of static type src to dst.
func symConvInt(dst, src types.Type, x *sym) value {
	db, sb := basicOf(dst), basicOf(src)
	if db == nil || sb == nil {
		panic(unsupported(fmt.Sprintf("symbolic conversion %s -> %s", src, dst)))
	}
	if x.k == sStr && db.Info()&types.IsString != 0 {
		return x
	}
	if x.k == sFP {
		if db.Kind() == types.Float64 {
			return x
		}
		dw := widthOfBasic(db)
		if dw == 0 {
			panic(unsupported("fp conversion"))
		}
		if db.Info()&types.IsUnsigned != 0 {
			return &sym{k: sBV, w: dw, e: fmt.Sprintf("((_ fp.to_ubv %d) RTZ %s)", dw, x.e)}
		}
		return &sym{k: sBV, w: dw, e: fmt.Sprintf("((_ fp.to_sbv %d) RTZ %s)", dw, x.e)}
	}
	if x.k != sBV {
		panic(unsupported(fmt.Sprintf("symbolic conversion %s -> %s", src, dst)))
	}
	if db.Kind() == types.Float64 {
		if sb.Info()&types.IsUnsigned != 0 {
			return &sym{k: sFP, e: "((_ to_fp_unsigned 11 53) RNE " + x.e + ")"}
		}
		return &sym{k: sFP, e: "((_ to_fp 11 53) RNE " + x.e + ")"}
	}
	dw := widthOfBasic(db)
	if dw == 0 {
		panic(unsupported(fmt.Sprintf("symbolic conversion %s -> %s", src, dst)))
	}
	switch {
	case dw == x.w:
		return x
	case dw < x.w:
		return &sym{k: sBV, w: dw, e: fmt.Sprintf("((_ extract %d 0) %s)", dw-1, x.e)}
	default:
		if sb.Info()&types.IsUnsigned != 0 {
			return &sym{k: sBV, w: dw, e: fmt.Sprintf("((_ zero_extend %d) %s)", dw-x.w, x.e)}
		}
		return &sym{k: sBV, w: dw, e: fmt.Sprintf("((_ sign_extend %d) %s)", dw-x.w, x.e)}
	}
}

// sortOfType gives the SMT sort used for scalars of Go type t (ok=false: not a scalar).
func sortOfType(t types.Type) (sortK, int, bool) {
	b := basicOf(t)
	if b == nil {
		return 0, 0, false
	}
	switch {
	case b.Info()&types.IsBoolean != 0:
		return sBool, 0, true
	case b.Info()&types.IsString != 0:
		return sStr, 0, true
	case b.Info()&types.IsInteger != 0:
		return sBV, widthOfBasic(b), true
	case b.Kind() == types.Float64:
		return sFP, 0, true
	}
	return 0, 0, false
}
