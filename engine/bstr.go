package main

// bstr: a string of KNOWN length whose bytes may be symbolic (8-bit bit-vector terms). It lets byte-level
// string code (path.Clean, path.Join) run on symbolic input without the solver's string theory:
// length, indexing, slicing, concatenation, conversion from/to []byte are concrete-shape operations,
// comparison is a conjunction of byte equalities. Anything else (ordering, range with UTF-8 decoding,
// mixing with unbounded SMT strings, library intrinsics) is reported as unsupported.

import (
	"go/token"
	"go/types"
)

type bstr []value

// mkBstr normalises: a sequence of concrete bytes is an ordinary Go string.
func mkBstr(b []value) value {
	all := true
	for _, x := range b {
		if _, ok := x.(byte); !ok {
			all = false
			break
		}
	}
	if all {
		out := make([]byte, len(b))
		for i, x := range b {
			out[i] = x.(byte)
		}
		return string(out)
	}
	return bstr(append([]value(nil), b...))
}

func isBstr(v value) bool { _, ok := v.(bstr); return ok }

// strBytes gives the bytes of a concrete string or bstr.
func strBytes(v value) ([]value, bool) {
	switch x := v.(type) {
	case string:
		out := make([]value, len(x))
		for i := 0; i < len(x); i++ {
			out[i] = x[i]
		}
		return out, true
	case bstr:
		return []value(x), true
	}
	return nil, false
}

func bstrBinop(op token.Token, x, y value) value {
	a, ok1 := strBytes(x)
	b, ok2 := strBytes(y)
	if !ok1 || !ok2 {
		panic(unsupported("byte-sequence string mixed with an unbounded symbolic string"))
	}
	switch op {
	case token.ADD:
		return mkBstr(append(append([]value(nil), a...), b...))
	case token.EQL, token.NEQ:
		var res value
		if len(a) != len(b) {
			res = false
		} else {
			acc := boolLit(true)
			u8 := types.Typ[types.Uint8]
			for i := range a {
				e := binop(token.EQL, u8, a[i], b[i])
				switch e := e.(type) {
				case bool:
					if !e {
						acc = boolLit(false)
					}
				case *sym:
					acc = mkAnd(acc, e)
				}
			}
			switch acc.e {
			case "true":
				res = true
			case "false":
				res = false
			default:
				res = acc
			}
		}
		if op == token.NEQ {
			switch r := res.(type) {
			case bool:
				return !r
			case *sym:
				return mkNot(r)
			}
		}
		return res
	}
	panic(unsupported("operator " + op.String() + " on a byte-sequence string"))
}
