// Copyright 2013 The Go Authors. All rights reserved.
// Use of this source code is governed by a BSD-style
// license that can be found in LICENSE.x-tools.
//
// Adapted from golang.org/x/tools/go/ssa/interp (interp.go): the instruction loop of a
// path-forking symbolic interpreter of go/ssa. Scalars may be SMT terms (*sym); a branch on a
// symbolic condition is a decision point resolved by the solver (explore.go).

package main

import (
	"fmt"
	"go/token"
	"go/types"
	"os"
	"runtime"
	"slices"
	"strings"

	"golang.org/x/tools/go/ssa"
)

type continuation int

const (
	kNext continuation = iota
	kReturn
	kJump
)

// State of one path.
type interpreter struct {
	prog               *ssa.Program
	ex                 *exec
	runtimeErrorString types.Type
	sizes              types.Sizes
	p                  *program
}

type deferred struct {
	fn    value
	args  []value
	instr *ssa.Defer
	tail  *deferred
}

type frame struct {
	i                *interpreter
	caller           *frame
	fn               *ssa.Function
	block, prevBlock *ssa.BasicBlock
	env              map[ssa.Value]value // dynamic values of SSA variables
	locals           []value
	defers           *deferred
	result           value
	panicking        bool
	panic            interface{}
	phitemps         []value // temporaries for parallel phi assignment
	visits           map[*ssa.BasicBlock]int
	th               *thread
}

func mustDeref(t types.Type) types.Type {
	if p, ok := t.Underlying().(*types.Pointer); ok {
		return p.Elem()
	}
	panic(fmt.Sprintf("mustDeref: %s is not a pointer", t))
}

func coreType(t types.Type) types.Type { return t.Underlying() }

func (i *interpreter) global(g *ssa.Global) *value {
	if r, ok := i.ex.globals[g]; ok {
		return r
	}
	cell := zero(mustDeref(g.Type()))
	i.ex.globals[g] = &cell
	if i.p != nil {
		if init := i.p.globalInit[g.String()]; init != nil {
			init(i, &cell)
		}
	}
	return &cell
}

func (fr *frame) get(key ssa.Value) value {
	switch key := key.(type) {
	case nil:
		return nil
	case *ssa.Function, *ssa.Builtin:
		return key
	case *ssa.Const:
		return constValue(key)
	case *ssa.Global:
		return fr.i.global(key)
	}
	if r, ok := fr.env[key]; ok {
		return r
	}
	panic(fmt.Sprintf("get: no value for %T: %v", key, key.Name()))
}

func isEnginePanic(p interface{}) bool {
	switch p.(type) {
	case pathEnd, unsupportedErr, pathAbort, *runtime.TypeAssertionError:
		return true
	}
	return false
}

func (fr *frame) runDefer(d *deferred) {
	var ok bool
	defer func() {
		if !ok {
			p := recover()
			if isEnginePanic(p) {
				panic(p)
			}
			fr.panicking = true
			fr.panic = p
		}
	}()
	call(fr.i, fr, d.instr.Pos(), d.fn, d.args)
	ok = true
}

func (fr *frame) runDefers() {
	for d := fr.defers; d != nil; d = d.tail {
		fr.runDefer(d)
	}
	fr.defers = nil
	if fr.panicking {
		panic(fr.panic) // new panic, or still panicking
	}
}

func lookupMethod(i *interpreter, typ types.Type, meth *types.Func) *ssa.Function {
	return i.prog.LookupMethod(typ, meth.Pkg(), meth.Name())
}

func (fr *frame) ex() *exec { return fr.i.ex }

// index resolves an index value against length n, forking for symbolic indices.
func (fr *frame) index(idx value, n int) int {
	if s, ok := idx.(*sym); ok {
		i := fr.ex().forkIndex(s, n, false)
		if i < 0 {
			panic(fmt.Sprintf("runtime error: index out of range [symbolic] with length %d", n))
		}
		return i
	}
	i := asInt64(idx)
	if i < 0 || i >= int64(n) {
		panic(fmt.Sprintf("runtime error: index out of range [%d] with length %d", i, n))
	}
	return int(i)
}

func visitInstr(fr *frame, instr ssa.Instruction) continuation {
	ex := fr.i.ex
	switch instr := instr.(type) {
	case *ssa.DebugRef:
		// no-op

	case *ssa.UnOp:
		if instr.Op == token.ARROW {
			ch := fr.get(instr.X).(*vchan)
			v, ok := ex.chanRecv(ch)
			if !ok {
				v = zero(instr.X.Type().Underlying().(*types.Chan).Elem())
			}
			if instr.CommaOk {
				v = tuple{v, ok}
			}
			fr.env[instr] = v
		} else if instr.Op == token.MUL {
			p := fr.get(instr.X).(*value)
			if p == nil {
				panic("runtime error: invalid memory address or nil pointer dereference")
			}
			ex.noteRead(p, instr)
			fr.env[instr] = load(mustDeref(instr.X.Type()), p)
		} else {
			fr.env[instr] = unop(instr, fr.get(instr.X))
		}

	case *ssa.BinOp:
		fr.env[instr] = binop(instr.Op, instr.X.Type(), fr.get(instr.X), fr.get(instr.Y))

	case *ssa.Call:
		fn, args := prepareCall(fr, &instr.Call)
		fr.env[instr] = call(fr.i, fr, instr.Pos(), fn, args)

	case *ssa.ChangeInterface:
		fr.env[instr] = fr.get(instr.X)

	case *ssa.ChangeType:
		fr.env[instr] = fr.get(instr.X) // (can't fail)

	case *ssa.Convert:
		fr.env[instr] = conv(instr.Type(), instr.X.Type(), fr.get(instr.X))

	case *ssa.SliceToArrayPointer:
		fr.env[instr] = sliceToArrayPointer(instr.Type(), instr.X.Type(), fr.get(instr.X))

	case *ssa.MakeInterface:
		fr.env[instr] = iface{t: instr.X.Type(), v: fr.get(instr.X)}

	case *ssa.Extract:
		fr.env[instr] = fr.get(instr.Tuple).(tuple)[instr.Index]

	case *ssa.Slice:
		lo, hi, mx := fr.get(instr.Low), fr.get(instr.High), fr.get(instr.Max)
		if isSym(lo) || isSym(hi) || isSym(mx) {
			panic(unsupported("slice expression with symbolic bound"))
		}
		x := fr.get(instr.X)
		if bx, ok := x.(bstr); ok {
			l, h := int64(0), int64(len(bx))
			if lo != nil {
				l = asInt64(lo)
			}
			if hi != nil {
				h = asInt64(hi)
			}
			if l < 0 || h > int64(len(bx)) || l > h {
				panic("runtime error: slice bounds out of range")
			}
			fr.env[instr] = mkBstr([]value(bx)[l:h])
			break
		}
		if sx, ok := x.(*sym); ok {
			if sx.k != sStr {
				panic(unsupported("slice of symbolic non-string"))
			}
			panic(unsupported("slice of symbolic string"))
		}
		fr.env[instr] = slice(x, lo, hi, mx)

	case *ssa.Return:
		switch len(instr.Results) {
		case 0:
		case 1:
			fr.result = fr.get(instr.Results[0])
		default:
			var res []value
			for _, r := range instr.Results {
				res = append(res, fr.get(r))
			}
			fr.result = tuple(res)
		}
		fr.block = nil
		return kReturn

	case *ssa.RunDefers:
		fr.runDefers()

	case *ssa.Panic:
		panic(targetPanic{fr.get(instr.X)})

	case *ssa.Send:
		ex.chanSend(fr.get(instr.Chan).(*vchan), fr.get(instr.X))

	case *ssa.Store:
		p := fr.get(instr.Addr).(*value)
		if p == nil {
			panic("runtime error: invalid memory address or nil pointer dereference")
		}
		ex.noteWrite(p, instr)
		store(mustDeref(instr.Addr.Type()), p, fr.get(instr.Val))

	case *ssa.If:
		succ := 1
		if ex.truth(fr.get(instr.Cond)) {
			succ = 0
		}
		fr.prevBlock, fr.block = fr.block, fr.block.Succs[succ]
		return kJump

	case *ssa.Jump:
		fr.prevBlock, fr.block = fr.block, fr.block.Succs[0]
		return kJump

	case *ssa.Defer:
		fn, args := prepareCall(fr, &instr.Call)
		defers := &fr.defers
		if into := fr.get(instr.DeferStack); into != nil {
			defers = into.(**deferred)
		}
		*defers = &deferred{
			fn:    fn,
			args:  args,
			instr: instr,
			tail:  *defers,
		}

	case *ssa.Go:
		fn, args := prepareCall(fr, &instr.Call)
		ex.spawn(fr, instr, fn, args)

	case *ssa.MakeChan:
		fr.env[instr] = &vchan{cap: int(asInt64(fr.get(instr.Size))), elem: instr.Type().Underlying().(*types.Chan).Elem()}

	case *ssa.Alloc:
		var addr *value
		if instr.Heap {
			addr = new(value)
			fr.env[instr] = addr
		} else {
			addr = fr.env[instr].(*value)
		}
		*addr = zero(mustDeref(instr.Type()))

	case *ssa.MakeSlice:
		slice := make([]value, asInt64(fr.get(instr.Cap)))
		tElt := instr.Type().Underlying().(*types.Slice).Elem()
		for i := range slice {
			slice[i] = zero(tElt)
		}
		fr.env[instr] = slice[:asInt64(fr.get(instr.Len))]

	case *ssa.MakeMap:
		fr.env[instr] = &smap{kt: instr.Type().Underlying().(*types.Map).Key()}

	case *ssa.Range:
		x := fr.get(instr.X)
		switch x := x.(type) {
		case *smap:
			fr.env[instr] = ex.rangeMap(x, instr)
		default:
			fr.env[instr] = rangeIterStr(x, instr.X.Type())
		}

	case *ssa.Next:
		fr.env[instr] = fr.get(instr.Iter).(iter).next()

	case *ssa.FieldAddr:
		p := fr.get(instr.X).(*value)
		if p == nil {
			panic("runtime error: invalid memory address or nil pointer dereference")
		}
		fr.env[instr] = &(*p).(structure)[instr.Field]

	case *ssa.Field:
		fr.env[instr] = fr.get(instr.X).(structure)[instr.Field]

	case *ssa.IndexAddr:
		x := fr.get(instr.X)
		idx := fr.get(instr.Index)
		switch x := x.(type) {
		case []value:
			fr.env[instr] = &x[fr.index(idx, len(x))]
		case *value: // *array
			if x == nil {
				panic("runtime error: invalid memory address or nil pointer dereference")
			}
			a := (*x).(array)
			fr.env[instr] = &a[fr.index(idx, len(a))]
		default:
			panic(fmt.Sprintf("unexpected x type in IndexAddr: %T", x))
		}

	case *ssa.Index:
		x := fr.get(instr.X)
		idx := fr.get(instr.Index)
		switch x := x.(type) {
		case array:
			fr.env[instr] = x[fr.index(idx, len(x))]
		case string:
			fr.env[instr] = x[fr.index(idx, len(x))]
		case bstr:
			fr.env[instr] = x[fr.index(idx, len(x))]
		case *sym:
			panic(unsupported("index into symbolic string"))
		default:
			panic(fmt.Sprintf("unexpected x type in Index: %T", x))
		}

	case *ssa.Lookup:
		x := fr.get(instr.X)
		switch x := x.(type) {
		case string:
			fr.env[instr] = x[fr.index(fr.get(instr.Index), len(x))]
		case bstr:
			fr.env[instr] = x[fr.index(fr.get(instr.Index), len(x))]
		case *sym:
			panic(unsupported("index into symbolic string"))
		default:
			if m, ok := x.(*smap); ok && m != nil {
				ex.noteReadObj(m, instr)
			}
			fr.env[instr] = lookup(ex, instr, x, fr.get(instr.Index))
		}

	case *ssa.MapUpdate:
		m := fr.get(instr.Map).(*smap)
		if m == nil {
			panic("assignment to entry in nil map")
		}
		ex.noteWrite(m, instr)
		m.insert(ex, fr.get(instr.Key), fr.get(instr.Value))

	case *ssa.TypeAssert:
		fr.env[instr] = typeAssert(fr.i, instr, fr.get(instr.X).(iface))

	case *ssa.MakeClosure:
		var bindings []value
		for _, binding := range instr.Bindings {
			bindings = append(bindings, fr.get(binding))
		}
		fr.env[instr] = &closure{instr.Fn.(*ssa.Function), bindings}

	case *ssa.Phi:
		panic("unreachable: phis are processed at block entry")

	case *ssa.Select:
		fr.env[instr] = ex.doSelect(fr, instr)

	default:
		panic(fmt.Sprintf("unexpected instruction: %T", instr))
	}

	return kNext
}

func prepareCall(fr *frame, call *ssa.CallCommon) (fn value, args []value) {
	v := fr.get(call.Value)
	if call.Method == nil {
		fn = v
	} else {
		recv := v.(iface)
		if recv.t == nil {
			panic("runtime error: invalid memory address or nil pointer dereference (method invoked on nil interface)")
		}
		if nm, ok := recv.v.(*nativeObj); ok {
			fn = nm.method(call.Method.Name())
			args = append(args, recv.v)
		} else if f := lookupMethod(fr.i, recv.t, call.Method); f == nil {
			panic(fmt.Sprintf("method set for dynamic type %v does not contain %s", recv.t, call.Method))
		} else {
			fn = f
			args = append(args, recv.v)
		}
	}
	for _, arg := range call.Args {
		args = append(args, fr.get(arg))
	}
	return
}

func call(i *interpreter, caller *frame, callpos token.Pos, fn value, args []value) value {
	switch fn := fn.(type) {
	case *ssa.Function:
		if fn == nil {
			panic("runtime error: call of nil function")
		}
		return callSSA(i, caller, callpos, fn, args, nil)
	case *closure:
		return callSSA(i, caller, callpos, fn.Fn, args, fn.Env)
	case *ssa.Builtin:
		return callBuiltin(caller, callpos, fn, args)
	case *nativeFn:
		fr := &frame{i: i, caller: caller}
		if caller != nil {
			fr.th = caller.th
		}
		return fn.fn(fr, args)
	}
	panic(fmt.Sprintf("cannot call %T", fn))
}

func loc(fset *token.FileSet, pos token.Pos) string {
	if pos == token.NoPos {
		return ""
	}
	return " at " + fset.Position(pos).String()
}

func callSSA(i *interpreter, caller *frame, callpos token.Pos, fn *ssa.Function, args []value, env []value) value {
	ex := i.ex
	fr := &frame{
		i:      i,
		caller: caller, // for panic/recover
		fn:     fn,
	}
	if caller != nil {
		fr.th = caller.th
	}
	if fn.Parent() == nil {
		name := fn.String()
		if strings.HasPrefix(fn.Name(), "verif") {
			if h := verifFns[fn.Name()]; h != nil {
				return h(fr, args)
			}
		}
		if ic, ok := ex.intercepts[name]; ok {
			ex.stubs["intercept:"+name]++
			return call(i, caller, callpos, ic, args)
		}
		if ext := intrinsics[name]; ext != nil {
			ex.stubs[name]++
			return ext(fr, args)
		}
		if fn.Pkg != nil {
			if r, ok := i.p.pkgRule(fn, fr, args); ok {
				return r
			}
		} else if fn.Origin() != nil && fn.Origin().Pkg != nil {
			// instantiated generic: look up by origin name
			oname := fn.Origin().String()
			if ext := intrinsics[oname]; ext != nil {
				ex.stubs[oname]++
				return ext(fr, args)
			}
		}
		if fn.Blocks == nil {
			panic(unsupported("no code for function: " + name))
		}
	}

	if fn.TypeParams().Len() > 0 && len(fn.TypeArgs()) == 0 {
		panic(unsupported("uninstantiated generic function " + fn.String()))
	}
	ex.funcs[fn] = true
	if i.p.cfg.trace {
		fmt.Fprintf(os.Stderr, "Entering %s\n", fn)
	}

	fr.env = make(map[ssa.Value]value)
	fr.block = fn.Blocks[0]
	fr.locals = make([]value, len(fn.Locals))
	for i, l := range fn.Locals {
		fr.locals[i] = zero(mustDeref(l.Type()))
		fr.env[l] = &fr.locals[i]
	}
	for i, p := range fn.Params {
		fr.env[p] = args[i]
	}
	for i, fv := range fn.FreeVars {
		fr.env[fv] = env[i]
	}
	for fr.block != nil {
		runFrame(fr)
	}
	return fr.result
}

func runFrame(fr *frame) {
	defer func() {
		if fr.block == nil {
			return // normal return
		}
		p := recover()
		if isEnginePanic(p) {
			panic(p)
		}
		fr.panicking = true
		fr.panic = p
		fr.runDefers()
		fr.block = fr.fn.Recover
	}()

	ex := fr.i.ex
	for {
		if fr.visits == nil {
			fr.visits = map[*ssa.BasicBlock]int{}
		}
		fr.visits[fr.block]++
		if fr.visits[fr.block] > fr.i.p.cfg.loopCap {
			panic(pathEnd{"unwind", fmt.Sprintf("block %s of %s visited more than %d times", fr.block, fr.fn, fr.i.p.cfg.loopCap)})
		}
		nonPhis := executePhis(fr)
		for _, instr := range nonPhis {
			ex.steps++
			if ex.steps > fr.i.p.cfg.maxSteps {
				panic(pathEnd{"unwind", fmt.Sprintf("step budget %d exhausted in %s", fr.i.p.cfg.maxSteps, fr.fn)})
			}
			if ex.abort != nil && ex.goMode == 1 {
				panic(pathAbort{})
			}
			if fr.i.p.cfg.trace {
				if v, ok := instr.(ssa.Value); ok {
					fmt.Fprintln(os.Stderr, "\t", v.Name(), "=", instr)
				} else {
					fmt.Fprintln(os.Stderr, "\t", instr)
				}
			}
			if visitInstr(fr, instr) == kReturn {
				return
			}
		}
	}
}

func executePhis(fr *frame) []ssa.Instruction {
	firstNonPhi := -1
	for i, instr := range fr.block.Instrs {
		if _, ok := instr.(*ssa.Phi); !ok {
			firstNonPhi = i
			break
		}
	}
	nonPhis := fr.block.Instrs[firstNonPhi:]
	if firstNonPhi > 0 {
		phis := fr.block.Instrs[:firstNonPhi]
		predIndex := slices.Index(fr.block.Preds, fr.prevBlock)
		fr.phitemps = fr.phitemps[:0]
		for _, phi := range phis {
			phi := phi.(*ssa.Phi)
			fr.phitemps = append(fr.phitemps, fr.get(phi.Edges[predIndex]))
		}
		for i, phi := range phis {
			fr.env[phi.(*ssa.Phi)] = fr.phitemps[i]
		}
	}
	return nonPhis
}

// doRecover implements the recover() built-in.
func doRecover(caller *frame) value {
	if caller != nil && !caller.panicking &&
		caller.caller != nil && caller.caller.panicking {
		caller.caller.panicking = false
		p := caller.caller.panic
		caller.caller.panic = nil
		switch p := p.(type) {
		case targetPanic:
			return p.v
		case runtime.Error:
			return iface{caller.i.runtimeErrorString, p.Error()}
		case string:
			return iface{caller.i.runtimeErrorString, p}
		default:
			panic(fmt.Sprintf("unexpected panic type %T in target call to recover()", p))
		}
	}
	return iface{}
}

// panicMessage renders an uncaught target panic.
func panicMessage(i *interpreter, p interface{}) string {
	switch p := p.(type) {
	case targetPanic:
		if it, ok := p.v.(iface); ok && it.t != nil {
			if s, ok := it.v.(string); ok {
				return "panic: " + s
			}
			if m := i.prog.LookupMethod(it.t, nil, "Error"); m != nil {
				func() {
					defer func() { recover() }()
					if s, ok := call(i, nil, token.NoPos, m, []value{it.v}).(string); ok {
						p.v = s
					}
				}()
				if s, ok := p.v.(string); ok {
					return "panic: " + s
				}
			}
		}
		return "panic: " + toString(p.v)
	case runtime.Error:
		return "runtime panic: " + p.Error()
	case string:
		return "panic: " + p
	}
	return fmt.Sprintf("panic: %v", p)
}

func shortStack(fr *frame) string {
	var parts []string
	for f := fr; f != nil && len(parts) < 6; f = f.caller {
		if f.fn != nil {
			parts = append(parts, f.fn.String())
		}
	}
	return strings.Join(parts, " <- ")
}
