package main

// Goroutines, channels, select and the sync package under the engine's control.
//
// goMode 0 ("L3"): a `go` statement records a pending activity; the harness runs it as an explicit
// event (verifRunSpawned). Everything is one thread; a blocking operation that cannot proceed is a
// deadlock.
// goMode 1 (threads): goroutines are cooperative coroutines (real Go goroutines passing a baton);
// a switch can happen only before a visible operation; which runnable thread continues is a
// decision point, bounded by the preemption bound.

import (
	"fmt"
	"go/types"

	"golang.org/x/tools/go/ssa"
)

type thread struct {
	id      int
	wake    chan int
	done    bool
	blocked func() bool // nil: runnable; else runnable when it returns true
	what    string
	name    string
	dirty      bool  // made a visible state change since its last sleep
	seenSeq    int64 // effective sequence number at its last wake-up
	ownUnlocks int64 // own lock releases: they publish state to others, not to the thread itself
}

type mutexState struct {
	w       bool
	r       int
	owner   *thread
	everR   bool
	waiting int
}

type wgState struct{ n int64 }

func (ex *exec) threaded() bool { return ex.goMode == 1 }

// spawn implements the `go` statement.
func (ex *exec) spawn(fr *frame, instr *ssa.Go, fn value, args []value) {
	if !ex.threaded() {
		tag := ""
		switch f := fn.(type) {
		case *ssa.Function:
			tag = f.String()
		case *closure:
			tag = f.Fn.String()
		}
		ex.spawned = append(ex.spawned, &spawnRec{fn: fn, args: args, tag: tag})
		return
	}
	ex.yield() // `go` is a visible operation
	ex.startThread(fr.i, fn, args)
}

func (ex *exec) startThread(i *interpreter, fn value, args []value) *thread {
	t := &thread{id: len(ex.threads), wake: make(chan int, 1), seenSeq: ex.visibleSeq}
	switch f := fn.(type) {
	case *ssa.Function:
		t.name = f.String()
	case *closure:
		t.name = f.Fn.String()
	case *nativeFn:
		t.name = f.name
	}
	ex.threads = append(ex.threads, t)
	ex.tg.Add(1)
	go func() {
		defer ex.tg.Done()
		if <-t.wake < 0 {
			return
		}
		killed := false
		func() {
			defer func() {
				if p := recover(); p != nil {
					killed = true
					if _, ok := p.(pathAbort); !ok {
						ex.setAbort(i, p, nil)
						t.done = true
						ex.wakeMain()
					}
				}
			}()
			fr := &frame{i: i, th: t}
			call(i, fr, 0, fn, args)
		}()
		t.done = true
		if killed {
			return
		}
		func() {
			defer func() {
				if p := recover(); p != nil {
					if _, ok := p.(pathAbort); !ok {
						ex.setAbort(i, p, nil)
						ex.wakeMain()
					}
				}
			}()
			ex.visibleSeq++
			ex.handoff(t, true)
		}()
	}()
	return t
}

func (ex *exec) wakeMain() {
	m := ex.threads[0]
	select {
	case m.wake <- -1:
	default:
	}
}

// setAbort records why the path ends (first cause wins).
func (ex *exec) setAbort(i *interpreter, p interface{}, fr *frame) {
	if ex.abort != nil {
		return
	}
	switch p := p.(type) {
	case pathEnd:
		ex.abort = &p
	case unsupportedErr:
		ex.abort = &pathEnd{"unsupported", p.msg}
	case pathAbort:
		ex.abort = &pathEnd{"abort", "aborted"}
	default:
		if isEnginePanic(p) {
			ex.abort = &pathEnd{"unsupported", fmt.Sprintf("engine type error (symbolic value in an unsupported position?): %v", p)}
			return
		}
		msg := panicMessage(i, p)
		ex.abort = &pathEnd{"panic", msg}
	}
}

func (ex *exec) runnable(t *thread) bool {
	if t.done {
		return false
	}
	if t.blocked == nil {
		return true
	}
	return t.blocked()
}

// pickNext chooses the thread to run next (decision point). cur may be nil/blocked/done.
func (ex *exec) pickNext(cur *thread, curRunnable bool) *thread {
	var cand []*thread
	for _, t := range ex.threads {
		if t == cur {
			if curRunnable {
				cand = append(cand, t)
			}
			continue
		}
		if ex.runnable(t) {
			cand = append(cand, t)
		}
	}
	if len(cand) == 0 {
		return nil
	}
	if curRunnable && ex.preemptions >= ex.cfg.preempt {
		return cur
	}
	if len(cand) == 1 {
		return cand[0]
	}
	// put the current thread first so that the default schedule is "keep running"
	if curRunnable {
		for i, t := range cand {
			if t == cur {
				cand[0], cand[i] = cand[i], cand[0]
			}
		}
	}
	c := ex.decide(len(cand), nil)
	ex.choices = append(ex.choices, choiceRec{"sched", len(cand), c})
	ch := cand[c]
	if curRunnable && ch != cur {
		ex.preemptions++
	}
	return ch
}

// handoff transfers control away from t (which is blocked, done, or yielding).
func (ex *exec) handoff(t *thread, exiting bool) {
	next := ex.pickNext(t, false)
	if next == nil {
		if exiting && t.id != 0 {
			// last thread gone while main is blocked forever
			if !ex.threads[0].done {
				ex.abort = &pathEnd{"deadlock", ex.describeBlocked()}
				ex.wakeMain()
			}
			return
		}
		panic(pathEnd{"deadlock", ex.describeBlocked()})
	}
	ex.switchTo(t, next, exiting)
}

func (ex *exec) switchTo(from, to *thread, exiting bool) {
	if from == to {
		return
	}
	ex.cur = to
	to.blocked = nil
	to.wake <- 1
	if exiting {
		return
	}
	if <-from.wake < 0 {
		panic(pathAbort{})
	}
	ex.cur = from
}

func (ex *exec) describeBlocked() string {
	s := "no runnable thread:"
	for _, t := range ex.threads {
		if !t.done {
			s += fmt.Sprintf(" [t%d %s blocked on %s]", t.id, t.name, t.what)
		}
	}
	return s
}

// yield is called before every visible operation in threaded mode (a write-like operation).
func (ex *exec) yield() { ex.yieldK(true, true) }

// yieldK: write=false for pure reads (atomic loads): they do not wake sleepers and do not mark the
// thread as having changed state. preempt=false: no switch point (only blocking switches there).
func (ex *exec) yieldK(write, preempt bool) {
	if !ex.threaded() {
		return
	}
	cur := ex.cur
	if write {
		ex.visibleSeq++
		cur.dirty = true
	}
	if !preempt {
		return
	}
	next := ex.pickNext(cur, true)
	if next != cur {
		ex.switchTo(cur, next, false)
	}
}

// block suspends the current thread until cond holds. In L3 mode an unsatisfied cond is a deadlock.
func (ex *exec) block(cond func() bool, what string) {
	if cond() {
		return
	}
	if !ex.threaded() {
		panic(pathEnd{"deadlock", "single-threaded harness blocks on " + what})
	}
	cur := ex.cur
	cur.blocked = cond
	cur.what = what
	for {
		next := ex.pickNext(cur, false)
		if next == nil {
			panic(pathEnd{"deadlock", what + "; " + ex.describeBlocked()})
		}
		if next == cur {
			cur.blocked = nil
			return
		}
		ex.switchTo(cur, next, false)
		if cond() {
			cur.blocked = nil
			return
		}
	}
}

// sleep models time.Sleep inside a polling loop (idle-iteration elision): the sleeper continues
// once another thread made a visible step since it went to sleep, or if it changed state itself
// in the iteration that just ended.
func (ex *exec) sleep() {
	if !ex.threaded() {
		return
	}
	cur := ex.cur
	eff := func() int64 { return ex.visibleSeq - cur.ownUnlocks }
	if eff() != cur.seenSeq {
		// something changed since this thread last woke up (own stores, or anything published by
		// others): the next iteration will look again; the sleep is still a switch point
		next := ex.pickNext(cur, true)
		if next != cur {
			ex.switchTo(cur, next, false)
		}
		cur.seenSeq = eff()
		return
	}
	seq := cur.seenSeq
	ex.block(func() bool { return eff() != seq }, "time.Sleep / poll interval with nothing left to change (livelock)")
	cur.seenSeq = eff()
}

// killThreads ends all parked threads at the end of a path.
func (ex *exec) killThreads() {
	for _, t := range ex.threads[1:] {
		if !t.done {
			select {
			case t.wake <- -1:
			default:
			}
		}
	}
	ex.tg.Wait()
}

// ---- channels ----

func (ex *exec) noteWriteOp() {
	if ex.threaded() {
		ex.visibleSeq++
		ex.cur.dirty = true
	}
}

func (ex *exec) chanSend(ch *vchan, v value) {
	ex.yieldK(false, true)
	defer ex.noteWriteOp()
	if ch == nil {
		ex.block(func() bool { return false }, "send on nil channel")
	}
	if ch.closed {
		panic("send on closed channel")
	}
	if ch.cap > 0 {
		ex.block(func() bool { return len(ch.buf) < ch.cap || ch.closed }, "channel send")
		if ch.closed {
			panic("send on closed channel")
		}
		ch.buf = append(ch.buf, v)
		return
	}
	// unbuffered: deposit, then wait until taken
	ex.block(func() bool { return len(ch.buf) == 0 }, "channel send")
	ch.buf = append(ch.buf, v)
	ex.block(func() bool { return len(ch.buf) == 0 }, "unbuffered channel send (no receiver)")
}

func (ex *exec) chanRecv(ch *vchan) (value, bool) {
	ex.yieldK(false, true)
	if ch == nil {
		ex.block(func() bool { return false }, "receive from nil channel")
	}
	ex.block(func() bool { return len(ch.buf) > 0 || ch.closed }, "channel receive")
	if len(ch.buf) > 0 {
		v := ch.buf[0]
		ch.buf = ch.buf[1:]
		return v, true
	}
	return nil, false
}

func (ex *exec) chanClose(ch *vchan) {
	ex.yield()
	if ch == nil {
		panic("close of nil channel")
	}
	if ch.closed {
		panic("close of closed channel")
	}
	ch.closed = true
}

func (ex *exec) doSelect(fr *frame, instr *ssa.Select) value {
	ex.yieldK(false, true)
	type cs struct {
		ch   *vchan
		send value
		recv bool
	}
	var cases []cs
	for _, st := range instr.States {
		c := cs{ch: fr.get(st.Chan).(*vchan), recv: st.Dir == types.RecvOnly}
		if st.Send != nil {
			c.send = fr.get(st.Send)
		}
		cases = append(cases, c)
	}
	ready := func() []int {
		var r []int
		for i, c := range cases {
			if c.ch == nil {
				continue
			}
			if c.recv {
				if len(c.ch.buf) > 0 || c.ch.closed {
					r = append(r, i)
				}
			} else {
				if c.ch.closed || (c.ch.cap > 0 && len(c.ch.buf) < c.ch.cap) {
					r = append(r, i)
				}
			}
		}
		return r
	}
	r := ready()
	chosen := -1
	if len(r) == 0 {
		if !instr.Blocking {
			chosen = -1
		} else {
			ex.block(func() bool { return len(ready()) > 0 }, "select")
			r = ready()
		}
	}
	if len(r) == 1 {
		chosen = r[0]
	} else if len(r) > 1 {
		c := ex.decide(len(r), nil)
		ex.choices = append(ex.choices, choiceRec{"select", len(r), c})
		chosen = r[c]
	}
	var recvV value
	recvOk := false
	if chosen >= 0 {
		c := cases[chosen]
		if c.recv {
			if len(c.ch.buf) > 0 {
				recvV = c.ch.buf[0]
				c.ch.buf = c.ch.buf[1:]
				recvOk = true
			}
		} else {
			if c.ch.closed {
				panic("send on closed channel")
			}
			c.ch.buf = append(c.ch.buf, c.send)
			ex.noteWriteOp()
		}
	}
	res := tuple{chosen, recvOk}
	for i, st := range instr.States {
		if st.Dir == types.RecvOnly {
			var v value
			if i == chosen && recvOk {
				v = recvV
			} else {
				v = zero(st.Chan.Type().Underlying().(*types.Chan).Elem())
			}
			res = append(res, v)
		}
	}
	return res
}

// ---- sync ----

func (ex *exec) mutex(p *value) *mutexState {
	m := ex.mutexes[p]
	if m == nil {
		m = &mutexState{}
		ex.mutexes[p] = m
	}
	return m
}

func (ex *exec) lock(p *value, what string) {
	ex.yieldK(false, ex.cfg.bounds["preempt_sync"] == 1)
	m := ex.mutex(p)
	if !ex.threaded() && (m.w || m.r > 0) {
		panic(pathEnd{"deadlock", "self-deadlock: " + what + " while the same mutex is already held"})
	}
	ex.block(func() bool { return !m.w && m.r == 0 }, what)
	m.w = true
	m.owner = ex.cur
}

func (ex *exec) unlock(p *value) {
	ex.yieldK(true, ex.cfg.bounds["preempt_sync"] == 1)
	if ex.threaded() {
		ex.cur.ownUnlocks++
	}
	m := ex.mutex(p)
	if !m.w {
		panic("fatal error: sync: unlock of unlocked mutex")
	}
	m.w = false
	m.owner = nil
}

func (ex *exec) rlock(p *value, what string) {
	ex.yieldK(false, ex.cfg.bounds["preempt_sync"] == 1)
	m := ex.mutex(p)
	if !ex.threaded() && m.w {
		panic(pathEnd{"deadlock", "self-deadlock: " + what + " while the write lock is held"})
	}
	ex.block(func() bool { return !m.w }, what)
	m.r++
	m.everR = true
}

func (ex *exec) runlock(p *value) {
	// a reader publishes nothing: releasing a read lock is not a state change
	ex.yieldK(false, ex.cfg.bounds["preempt_sync"] == 1)
	m := ex.mutex(p)
	if m.r <= 0 {
		panic("fatal error: sync: RUnlock of unlocked RWMutex")
	}
	m.r--
}

func (ex *exec) wg(p *value) *wgState {
	w := ex.wgs[p]
	if w == nil {
		w = &wgState{}
		ex.wgs[p] = w
	}
	return w
}
