package main

// Type-driven construction of arbitrary values, structural equality, deep copies, map iteration
// order as a decision, and lock-discipline tracking (C13). All of these walk go/types, so fields
// added to /repo's structs later are included automatically.

import (
	"fmt"
	"go/token"
	"go/types"
	"strings"

	"golang.org/x/tools/go/ssa"
)

func typeString(t types.Type) string { return types.TypeString(t, nil) }

// arbitrary builds an arbitrary value of type T. Shape (nil-ness, lengths, map sizes) is decided
// by decision points; scalars are fresh symbolic variables.
func (ex *exec) arbitrary(fr *frame, name string, T types.Type, depth int) value {
	switch typeString(T) {
	case "time.Time":
		ns := ex.fresh(name, sBV, 64)
		ex.addPC(symBinop(token.GTR, int64T(), ns, int64(0)).(*sym))
		ex.addPC(symBinop(token.LSS, int64T(), ns, int64(1)<<62).(*sym))
		return timeVal(ns)
	case "github.com/gofrs/uuid.UUID":
		ex.uuidCtr++
		a := make(array, 16)
		for i := range a {
			a[i] = uint8(0)
		}
		a[0] = uint8(0xA0)
		a[15] = uint8(ex.uuidCtr)
		return a
	}
	switch t := T.Underlying().(type) {
	case *types.Basic:
		k, w, ok := sortOfType(t)
		if !ok {
			return zero(T)
		}
		return ex.fresh(name, k, w)
	case *types.Pointer:
		if depth >= int(boundOf(ex, "ptrdepth", 3)) {
			return zero(T)
		}
		if ex.choose(name+"?nil", 2) == 0 {
			return zero(T)
		}
		cell := ex.arbitrary(fr, "*"+name, t.Elem(), depth+1)
		return &cell
	case *types.Slice:
		maxLen := int(boundOf(ex, "slice", 2))
		n := ex.choose(name+"#len", maxLen+1)
		if n == 0 {
			if boundOf(ex, "nilempty", 0) == 1 && ex.choose(name+"?empty", 2) == 1 {
				return []value{}
			}
			return []value(nil)
		}
		sl := make([]value, n)
		for i := range sl {
			sl[i] = ex.arbitrary(fr, fmt.Sprintf("%s[%d]", name, i), t.Elem(), depth+1)
		}
		return sl
	case *types.Map:
		maxLen := int(boundOf(ex, "map", 2))
		n := ex.choose(name+"#size", maxLen+1)
		if n == 0 {
			if boundOf(ex, "nilempty", 0) == 1 && ex.choose(name+"?empty", 2) == 1 {
				return &smap{kt: t.Key()}
			}
			return (*smap)(nil)
		}
		m := &smap{kt: t.Key()}
		for i := 0; i < n; i++ {
			k := ex.arbitrary(fr, fmt.Sprintf("%s.key%d", name, i), t.Key(), depth+1)
			for _, pk := range m.keys {
				ne := notV(eqv(t.Key(), pk, k))
				if s, ok := ne.(*sym); ok {
					ex.addPC(s)
				} else if !ne.(bool) {
					panic(pathEnd{"infeasible", "duplicate concrete map keys"})
				}
			}
			v := ex.arbitrary(fr, fmt.Sprintf("%s.val%d", name, i), t.Elem(), depth+1)
			m.keys = append(m.keys, k)
			m.vals = append(m.vals, v)
		}
		return m
	case *types.Struct:
		s := make(structure, t.NumFields())
		for i := range s {
			s[i] = ex.arbitrary(fr, name+"."+t.Field(i).Name(), t.Field(i).Type(), depth)
		}
		return s
	case *types.Array:
		a := make(array, t.Len())
		for i := range a {
			a[i] = ex.arbitrary(fr, fmt.Sprintf("%s[%d]", name, i), t.Elem(), depth)
		}
		return a
	case *types.Interface:
		if types.Identical(T, types.Universe.Lookup("error").Type()) {
			if ex.choose(name+"?nil", 2) == 0 {
				return iface{}
			}
			msg := ex.fresh(name+".msg", sStr, 0)
			return mkError(fr, msg)
		}
		if t.NumMethods() == 0 {
			// interface{}: nil, string, float64 or bool (JSON-like payloads)
			switch ex.choose(name+"?kind", int(boundOf(ex, "anykinds", 3))) {
			case 0:
				return iface{}
			case 1:
				return iface{t: types.Typ[types.String], v: ex.fresh(name+".str", sStr, 0)}
			case 2:
				return iface{t: types.Typ[types.Float64], v: ex.fresh(name+".f64", sFP, 0)}
			default:
				return iface{t: types.Typ[types.Bool], v: ex.fresh(name+".bool", sBool, 0)}
			}
		}
		return iface{}
	}
	return zero(T)
}

// deepEqual is structural equality by type (like reflect.DeepEqual, over symbolic values).
func (ex *exec) deepEqual(fr *frame, T types.Type, x, y value, seen map[[2]interface{}]bool) value {
	if typeString(T) == "time.Time" {
		return eqv(int64T(), timeNs(x), timeNs(y))
	}
	switch t := T.Underlying().(type) {
	case *types.Basic:
		return eqv(T, x, y)
	case *types.Pointer:
		px, py := x.(*value), y.(*value)
		if px == nil || py == nil {
			return px == nil && py == nil
		}
		if px == py {
			return true
		}
		k := [2]interface{}{px, py}
		if seen[k] {
			return true
		}
		seen[k] = true
		return ex.deepEqual(fr, t.Elem(), *px, *py, seen)
	case *types.Slice:
		sx, sy := x.([]value), y.([]value)
		if (sx == nil) != (sy == nil) || len(sx) != len(sy) {
			if boundOf(ex, "nilempty", 0) == 0 && len(sx) == 0 && len(sy) == 0 {
				return true
			}
			return false
		}
		var acc value = true
		for i := range sx {
			acc = andV(acc, ex.deepEqual(fr, t.Elem(), sx[i], sy[i], seen))
			if acc == false {
				return false
			}
		}
		return acc
	case *types.Map:
		mx, my := x.(*smap), y.(*smap)
		if mx.length() != my.length() {
			return false
		}
		if (mx == nil) != (my == nil) && boundOf(ex, "nilempty", 0) == 1 {
			return false
		}
		var acc value = true
		for i := 0; i < mx.length(); i++ {
			var any value = false
			for j := 0; j < my.length(); j++ {
				ke := eqv(t.Key(), mx.keys[i], my.keys[j])
				if ke == false {
					continue
				}
				any = orV(any, andV(ke, ex.deepEqual(fr, t.Elem(), mx.vals[i], my.vals[j], seen)))
			}
			acc = andV(acc, any)
			if acc == false {
				return false
			}
		}
		return acc
	case *types.Struct:
		sx, sy := x.(structure), y.(structure)
		var acc value = true
		for i := 0; i < t.NumFields(); i++ {
			acc = andV(acc, ex.deepEqual(fr, t.Field(i).Type(), sx[i], sy[i], seen))
			if acc == false {
				return false
			}
		}
		return acc
	case *types.Array:
		ax, ay := x.(array), y.(array)
		var acc value = true
		for i := range ax {
			acc = andV(acc, ex.deepEqual(fr, t.Elem(), ax[i], ay[i], seen))
			if acc == false {
				return false
			}
		}
		return acc
	case *types.Interface:
		ix, iy := x.(iface), y.(iface)
		if !sameType(ix.t, iy.t) {
			return false
		}
		if ix.t == nil {
			return true
		}
		return ex.deepEqual(fr, ix.t, ix.v, iy.v, seen)
	case *types.Signature:
		return isNilRef(x) && isNilRef(y) || sameFunc(x, y)
	case *types.Chan:
		return x.(*vchan) == y.(*vchan)
	}
	panic(unsupported("deepEqual on " + T.String()))
}

func sameFunc(x, y value) bool {
	switch x := x.(type) {
	case *ssa.Function:
		yy, ok := y.(*ssa.Function)
		return ok && x == yy
	case *closure:
		yy, ok := y.(*closure)
		return ok && x == yy
	case *nativeFn:
		yy, ok := y.(*nativeFn)
		return ok && x == yy
	}
	return false
}

// deepClone copies everything reachable through pointers, slices and maps (functions and
// channels are shared).
func (ex *exec) deepClone(T types.Type, v value, memo map[interface{}]value) value {
	switch t := T.Underlying().(type) {
	case *types.Pointer:
		p := v.(*value)
		if p == nil {
			return p
		}
		if c, ok := memo[p]; ok {
			return c
		}
		np := new(value)
		memo[p] = np
		*np = ex.deepClone(t.Elem(), *p, memo)
		return np
	case *types.Slice:
		s := v.([]value)
		if s == nil {
			return s
		}
		ns := make([]value, len(s), cap(s))
		for i := range s {
			ns[i] = ex.deepClone(t.Elem(), s[i], memo)
		}
		return ns
	case *types.Map:
		m := v.(*smap)
		if m == nil {
			return m
		}
		if c, ok := memo[m]; ok {
			return c
		}
		nm := &smap{kt: m.kt}
		memo[m] = nm
		for i := range m.keys {
			nm.keys = append(nm.keys, ex.deepClone(t.Key(), m.keys[i], memo))
			nm.vals = append(nm.vals, ex.deepClone(t.Elem(), m.vals[i], memo))
		}
		return nm
	case *types.Struct:
		s := v.(structure)
		ns := make(structure, len(s))
		for i := range s {
			ns[i] = ex.deepClone(t.Field(i).Type(), s[i], memo)
		}
		return ns
	case *types.Array:
		a := v.(array)
		na := make(array, len(a))
		for i := range a {
			na[i] = ex.deepClone(t.Elem(), a[i], memo)
		}
		return na
	case *types.Interface:
		it := v.(iface)
		if it.t == nil {
			return it
		}
		return iface{t: it.t, v: ex.deepClone(it.t, it.v, memo)}
	}
	return v
}

// rangeMap creates a map iterator; with permutation enabled the visiting order is a decision.
func (ex *exec) rangeMap(m *smap, instr *ssa.Range) iter {
	n := m.length()
	it := &smapIter{}
	if n == 0 {
		return it
	}
	m.fixIDs()
	it.ids = append([]int{}, m.ids...)
	it.m = m
	order := make([]int, n)
	for i := range order {
		order[i] = i
	}
	if ex.permute && n >= 2 && boundOf(ex, "permutemode", 0) == 1 {
		// cheap variant: insertion order or its reverse
		c := ex.decide(2, nil)
		ex.choices = append(ex.choices, choiceRec{"maporder", 2, c})
		if c == 1 {
			for i, j := 0, n-1; i < j; i, j = i+1, j-1 {
				order[i], order[j] = order[j], order[i]
			}
		}
	} else if ex.permute && n >= 2 && n <= int(boundOf(ex, "permute", 4)) {
		rem := append([]int{}, order...)
		order = order[:0]
		for len(rem) > 1 {
			c := ex.decide(len(rem), nil)
			ex.choices = append(ex.choices, choiceRec{"maporder", len(rem), c})
			order = append(order, rem[c])
			rem = append(rem[:c:c], rem[c+1:]...)
		}
		order = append(order, rem[0])
	}
	it.order = order
	return it
}

// ---- lock discipline (C13) ----

type lockTrack struct {
	mx      *value
	root    iface
	cells   map[interface{}]string
	allow   map[string]bool
	flagged map[string]bool
}

func (ex *exec) trackReach(fr *frame) {
	tr := ex.track
	if tr == nil {
		return
	}
	if tr.allow == nil {
		tr.allow = map[string]bool{}
		tr.flagged = map[string]bool{}
	}
	tr.cells = map[interface{}]string{}
	seen := map[interface{}]bool{}
	var walk func(T types.Type, v value, path string)
	walk = func(T types.Type, v value, path string) {
		switch typeString(T) {
		case "sync.RWMutex", "sync.Mutex", "sync.WaitGroup", "sync.Once", "time.Time":
			return
		}
		switch t := T.Underlying().(type) {
		case *types.Pointer:
			p := v.(*value)
			if p == nil || seen[p] {
				return
			}
			seen[p] = true
			switch typeString(t.Elem()) {
			case "github.com/Flowpack/prunner/definition.PipelinesDef", "github.com/Flowpack/prunner/taskctl.Scheduler", "time.Timer", "time.Time":
				// immutable by contract / foreign objects: only the pointer cell is tracked
				return
			}
			tr.cells[p] = path
			walk(t.Elem(), *p, "*"+path)
		case *types.Struct:
			s := v.(structure)
			for i := range s {
				fp := path + "." + t.Field(i).Name()
				switch typeString(t.Field(i).Type()) {
				case "sync.RWMutex", "sync.Mutex", "sync.WaitGroup", "sync.Once":
					continue
				}
				tr.cells[&s[i]] = fp
				walk(t.Field(i).Type(), s[i], fp)
			}
		case *types.Array:
			a := v.(array)
			for i := range a {
				tr.cells[&a[i]] = path + "[]"
				walk(t.Elem(), a[i], path+"[]")
			}
		case *types.Slice:
			s := v.([]value)
			if s == nil {
				return
			}
			full := s[:cap(s)]
			for i := range full {
				tr.cells[&full[i]] = path + "[]"
			}
			for i := range s {
				walk(t.Elem(), s[i], path+"[]")
			}
		case *types.Map:
			m := v.(*smap)
			if m == nil || seen[m] {
				return
			}
			seen[m] = true
			tr.cells[m] = path
			for i := range m.vals {
				walk(t.Elem(), m.vals[i], path+"[k]")
			}
		case *types.Interface:
			it := v.(iface)
			if it.t != nil {
				if _, isPtr := it.t.Underlying().(*types.Pointer); isPtr {
					return // foreign objects behind interfaces (store, runner) are not runner state
				}
			}
		}
	}
	walk(tr.root.t, tr.root.v, "r")
}

func (ex *exec) noteWrite(obj interface{}, instr interface{}) {
	tr := ex.track
	if tr == nil {
		return
	}
	path, ok := tr.cells[obj]
	if !ok {
		return
	}
	m := ex.mutex(tr.mx)
	ex.oblig["C13.write-needs-write-lock"]++
	if tr.allow["immutable:"+path] {
		ex.lockViolation("C13.immutable-field-written", path, instr, m)
		return
	}
	if m.w {
		return
	}
	ex.lockViolation("C13.write-needs-write-lock", path, instr, m)
}

func (ex *exec) noteRead(p *value, instr interface{}) {
	tr := ex.track
	if tr == nil {
		return
	}
	path, ok := tr.cells[p]
	if !ok {
		return
	}
	m := ex.mutex(tr.mx)
	ex.oblig["C13.read-needs-lock"]++
	if m.w || m.r > 0 {
		return
	}
	ex.lockViolation("C13.read-needs-lock", path, instr, m)
}

func (ex *exec) noteReadObj(obj interface{}, instr interface{}) {
	tr := ex.track
	if tr == nil {
		return
	}
	path, ok := tr.cells[obj]
	if !ok {
		return
	}
	m := ex.mutex(tr.mx)
	if m.w || m.r > 0 {
		return
	}
	ex.lockViolation("C13.read-needs-lock", path, instr, m)
}

func (ex *exec) lockViolation(oblig, path string, instr interface{}, m *mutexState) {
	tr := ex.track
	where := ""
	fn := ""
	if in, ok := instr.(ssa.Instruction); ok {
		where = ex.i.prog.Fset.Position(in.Pos()).String()
		if in.Parent() != nil {
			fn = in.Parent().String()
		}
	} else if s, ok := instr.(string); ok {
		where = s
	}
	if strings.Contains(where, "zz_verif_") {
		return // harness code inspecting the state between operations
	}
	if oblig != "C13.immutable-field-written" && (tr.allow[fn] || tr.allow[path] || tr.allow["immutable:"+path]) {
		ex.notes["C13 allowed access: "+path+" in "+fn] = "declared happens-before justification"
		return
	}
	key := oblig + "|" + path + "|" + fn
	if tr.flagged[key] {
		return
	}
	tr.flagged[key] = true
	mode := "no lock"
	if m.r > 0 {
		mode = "read lock only"
	}
	ex.event(fmt.Sprintf("LOCK-VIOLATION %s field=%s fn=%s held=%s at=%s", oblig, path, fn, mode, where))
	ex.recordFailure("assert", oblig, fmt.Sprintf("access to %s in %s with %s (%s)", path, fn, mode, where), nil)
	ex.failures[len(ex.failures)-1].Where = fn + "|" + path + "|" + mode
}
