package main

// Loading: go/packages over /repo's current working tree with the harness sources injected as an
// overlay (nothing is written under /repo), then go/ssa for the whole program. Nothing is cached
// between runs.

import (
	"fmt"
	"go/types"
	"os"
	"path/filepath"
	"strings"

	"golang.org/x/tools/go/packages"
	"golang.org/x/tools/go/ssa"
	"golang.org/x/tools/go/ssa/ssautil"
)

type program struct {
	cfg        *config
	prog       *ssa.Program
	pkgs       []*ssa.Package
	main       *ssa.Package
	entry      *ssa.Function
	globalInit map[string]func(i *interpreter, cell *value)
	noopPkgs   []string
	initPkgs   []string
	loadSecs   float64
	buildSecs  float64
}

// loadProgram loads package pattern pkgPath (import path) from repoDir with every *.go file of
// harnessDir overlaid into the package directory pkgDir (absolute).
func loadProgram(cfg *config, repoDir, pkgPath, pkgDir string, harnessDirs []string, tags string) (*program, error) {
	overlay := map[string][]byte{}
	for _, hd := range harnessDirs {
		ents, err := os.ReadDir(hd)
		if err != nil {
			return nil, err
		}
		for _, e := range ents {
			if e.IsDir() || !strings.HasSuffix(e.Name(), ".go") {
				continue
			}
			b, err := os.ReadFile(filepath.Join(hd, e.Name()))
			if err != nil {
				return nil, err
			}
			overlay[filepath.Join(pkgDir, e.Name())] = b
		}
	}
	pcfg := &packages.Config{
		Mode:    packages.LoadAllSyntax,
		Dir:     repoDir,
		Overlay: overlay,
		Env:     append(os.Environ(), "GOFLAGS=-mod=mod", "GOPROXY=off", "GOSUMDB=off", "GOTOOLCHAIN=local", "CGO_ENABLED=0"),
	}
	if tags != "" {
		pcfg.BuildFlags = []string{"-tags=" + tags}
	}
	initial, err := packages.Load(pcfg, pkgPath)
	if err != nil {
		return nil, err
	}
	nerr := 0
	packages.Visit(initial, nil, func(p *packages.Package) {
		for _, e := range p.Errors {
			fmt.Fprintln(os.Stderr, "load error:", e)
			nerr++
		}
	})
	if nerr > 0 {
		return nil, fmt.Errorf("%d package load errors (harness no longer compiles against /repo?)", nerr)
	}
	prog, pkgs := ssautil.AllPackages(initial, ssa.InstantiateGenerics|ssa.SanityCheckFunctions*0)
	prog.Build()
	p := &program{cfg: cfg, prog: prog, pkgs: pkgs, globalInit: map[string]func(*interpreter, *value){}}
	for _, sp := range pkgs {
		if sp != nil && sp.Pkg.Path() == pkgPath {
			p.main = sp
		}
	}
	if p.main == nil {
		return nil, fmt.Errorf("package %s not found", pkgPath)
	}
	p.entry = p.main.Func(cfg.entry)
	if p.entry == nil {
		return nil, fmt.Errorf("entry function %s not found in %s", cfg.entry, pkgPath)
	}
	p.noopPkgs = []string{"github.com/apex/log", "github.com/sirupsen/logrus", "log"}
	p.initPkgs = []string{"github.com/Flowpack/prunner/...", "github.com/taskctl/taskctl/pkg/scheduler", "github.com/gofrs/uuid"}
	for name, msg := range map[string]string{
		"context.Canceled":         "context canceled",
		"context.DeadlineExceeded": "context deadline exceeded",
		"io.EOF":                   "EOF",
		"io.ErrUnexpectedEOF":      "unexpected EOF",
		"os.ErrNotExist":           "file does not exist",
		"io/fs.ErrNotExist":        "file does not exist",
		"os.ErrExist":              "file already exists",
		"os.ErrPermission":         "permission denied",
	} {
		msg := msg
		p.globalInit[name] = func(i *interpreter, cell *value) {
			ep := i.prog.ImportedPackage("errors")
			if ep == nil {
				return
			}
			t := ep.Type("errorString").Type()
			c := value(structure{msg})
			*cell = iface{t: types.NewPointer(t), v: &c}
		}
	}
	p.globalInit["github.com/json-iterator/go.pow10"] = func(i *interpreter, cell *value) {
		*cell = []value{uint64(1), uint64(10), uint64(100), uint64(1000), uint64(10000), uint64(100000), uint64(1000000)}
	}
	return p, nil
}

// matchInit: entries are exact import paths, or "prefix/..." for a package and its sub-packages.
func matchInit(path string, list []string) bool {
	for _, l := range list {
		if strings.HasSuffix(l, "/...") {
			b := strings.TrimSuffix(l, "/...")
			if path == b || strings.HasPrefix(path, b+"/") {
				return true
			}
		} else if path == l {
			return true
		}
	}
	return false
}

func hasPrefixPath(path string, list []string) bool {
	for _, l := range list {
		if path == l || strings.HasPrefix(path, l+"/") {
			return true
		}
	}
	return false
}

// pkgRule applies package-level rules: package initialisers outside the allow list are skipped,
// logging packages are no-ops.
func (p *program) pkgRule(fn *ssa.Function, fr *frame, args []value) (value, bool) {
	path := fn.Pkg.Pkg.Path()
	if fn.Name() == "init" && fn.Synthetic != "" && fn.Signature.Recv() == nil {
		if !matchInit(path, p.initPkgs) {
			return nil, true
		}
		return nil, false
	}
	if hasPrefixPath(path, p.noopPkgs) {
		fr.i.ex.stubs["noop:"+path]++
		res := fn.Signature.Results()
		switch res.Len() {
		case 0:
			return nil, true
		case 1:
			return zero(res.At(0).Type()), true
		default:
			return zero(res), true
		}
	}
	return nil, false
}

func (p *program) skipInit(path string) bool { return false }
