package main

// One long-lived SMT solver process per worker (z3 -in / cvc5 --incremental), driven with
// push/pop. Any "(error" line makes the answer inconclusive ("error").

import (
	"bufio"
	"fmt"
	"io"
	osexec "os/exec"
	"strings"
	"sync/atomic"
	"time"
)

type solverStats struct {
	queries, sat, unsat, unknown, errors int64
	nanos, maxNanos                       int64
}

var gSolverStats solverStats

type solver struct {
	cmd   *osexec.Cmd
	in    io.WriteCloser
	out   *bufio.Reader
	depth int
	log   io.Writer // optional SMT-LIB2 transcript
	dead  bool
	kind  string
}

func solverCmd(kind string, timeoutMs int) (string, []string, []string) {
	switch kind {
	case "z3-new":
		return "z3-new", []string{"-in"}, []string{fmt.Sprintf("(set-option :timeout %d)", timeoutMs)}
	case "cvc5-int":
		return "cvc5", []string{"--incremental", "--strings-exp", "--produce-models", "--solve-bv-as-int=sum", fmt.Sprintf("--tlimit-per=%d", timeoutMs), "--lang=smt2"}, []string{"(set-logic ALL)"}
	case "cvc5":
		return "cvc5", []string{"--incremental", "--strings-exp", "--produce-models", fmt.Sprintf("--tlimit-per=%d", timeoutMs), "--lang=smt2"}, []string{"(set-logic ALL)"}
	default:
		return "z3", []string{"-in"}, []string{fmt.Sprintf("(set-option :timeout %d)", timeoutMs)}
	}
}

func newSolver(kind string, timeoutMs int, log io.Writer) (*solver, error) {
	bin, args, pre := solverCmd(kind, timeoutMs)
	cmd := osexec.Command(bin, args...)
	in, err := cmd.StdinPipe()
	if err != nil {
		return nil, err
	}
	outp, err := cmd.StdoutPipe()
	if err != nil {
		return nil, err
	}
	cmd.Stderr = nil
	if err := cmd.Start(); err != nil {
		return nil, err
	}
	s := &solver{cmd: cmd, in: in, out: bufio.NewReaderSize(outp, 1<<16), log: log, kind: kind}
	s.send("(set-option :produce-models true)")
	for _, p := range pre {
		s.send(p)
	}
	return s, nil
}

func (s *solver) send(line string) {
	if s.dead {
		return
	}
	if s.log != nil {
		io.WriteString(s.log, line+"\n")
	}
	if _, err := io.WriteString(s.in, line+"\n"); err != nil {
		s.dead = true
	}
}

func (s *solver) push() { s.send("(push 1)"); s.depth++ }
func (s *solver) pop()  { s.send("(pop 1)"); s.depth-- }

func (s *solver) close() {
	if s.cmd != nil {
		s.in.Close()
		s.cmd.Process.Kill()
		s.cmd.Wait()
	}
}

func (s *solver) readLine() string {
	l, err := s.out.ReadString('\n')
	if err != nil {
		s.dead = true
		return "(error \"solver died\")"
	}
	return strings.TrimSpace(l)
}

// check issues (check-sat) and returns sat|unsat|unknown|error.
func (s *solver) check() string {
	if s.dead {
		return "error"
	}
	t0 := time.Now()
	s.send("(check-sat)")
	res := "error"
	for {
		l := s.readLine()
		if l == "" {
			continue
		}
		if strings.HasPrefix(l, "(error") {
			if s.dead {
				break
			}
			// keep reading until the verdict line arrives; the verdict is not trusted
			res = "error!"
			continue
		}
		if l == "sat" || l == "unsat" || l == "unknown" || l == "timeout" {
			if res == "error!" {
				res = "error"
			} else if l == "timeout" {
				res = "unknown"
			} else {
				res = l
			}
			break
		}
		if s.dead {
			break
		}
	}
	d := time.Since(t0).Nanoseconds()
	atomic.AddInt64(&gSolverStats.queries, 1)
	atomic.AddInt64(&gSolverStats.nanos, d)
	for {
		m := atomic.LoadInt64(&gSolverStats.maxNanos)
		if d <= m || atomic.CompareAndSwapInt64(&gSolverStats.maxNanos, m, d) {
			break
		}
	}
	switch res {
	case "sat":
		atomic.AddInt64(&gSolverStats.sat, 1)
	case "unsat":
		atomic.AddInt64(&gSolverStats.unsat, 1)
	case "unknown":
		atomic.AddInt64(&gSolverStats.unknown, 1)
	default:
		atomic.AddInt64(&gSolverStats.errors, 1)
	}
	return res
}

// getValue evaluates one term in the current model (after a sat check).
func (s *solver) getValue(term string) string {
	if s.dead {
		return ""
	}
	s.send("(get-value (" + term + "))")
	// response: ((term value)) possibly over several lines
	var b strings.Builder
	depth := 0
	started := false
	for {
		l := s.readLine()
		if s.dead {
			return ""
		}
		if strings.HasPrefix(l, "(error") {
			return ""
		}
		b.WriteString(l)
		b.WriteByte(' ')
		inStr := false
		for i := 0; i < len(l); i++ {
			c := l[i]
			if c == '"' {
				inStr = !inStr
			}
			if inStr {
				continue
			}
			if c == '(' {
				depth++
				started = true
			} else if c == ')' {
				depth--
			}
		}
		if started && depth <= 0 {
			break
		}
	}
	r := strings.TrimSpace(b.String())
	// strip "((" term " " value "))"
	r = strings.TrimPrefix(r, "((")
	r = strings.TrimSuffix(r, "))")
	r = strings.TrimSpace(r)
	if strings.HasPrefix(r, term) {
		r = strings.TrimSpace(r[len(term):])
	} else if i := strings.Index(r, " "); i >= 0 {
		r = strings.TrimSpace(r[i+1:])
	}
	return r
}
