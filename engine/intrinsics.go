package main

// Engine-level stubs of the environment (keyed by ssa.Function.String()) and the harness
// vocabulary (functions named verif*). Every stub that runs is counted in the evidence.

import (
	"fmt"
	"go/token"
	"go/types"
	"sort"
	"strings"
	"time"

	"golang.org/x/tools/go/ssa"
)

type externalFn func(fr *frame, args []value) value

var intrinsics = map[string]externalFn{}

// nativeObj is reserved for engine-provided objects with methods.
type nativeObj struct {
	methods map[string]*nativeFn
}

func (o *nativeObj) method(name string) *nativeFn { return o.methods[name] }

func asString(fr *frame, v value) string {
	switch v := v.(type) {
	case string:
		return v
	case *sym, bstr:
		panic(unsupported("symbolic string where a concrete one is needed"))
	}
	panic(fmt.Sprintf("asString: %T", v))
}

func tupleOrSingle(vs ...value) value {
	if len(vs) == 1 {
		return vs[0]
	}
	return tuple(vs)
}

// timeVal builds a time.Time value: wall=0, ext=ns, loc=nil.
func timeVal(ns value) value {
	return structure{uint64(0), ns, (*value)(nil)}
}

func timeNs(t value) value {
	s := t.(structure)
	if w, ok := s[0].(uint64); !ok || w != 0 {
		panic(unsupported("time.Time with a wall-clock encoding (not produced by the engine clock)"))
	}
	return s[1]
}

func int64T() types.Type { return types.Typ[types.Int64] }

func (ex *exec) now() value {
	t := ex.fresh("now", sBV, 64)
	prev := ex.clock
	if prev == nil {
		prev = int64(1)
	}
	ex.addPC(symBinop(token.GEQ, int64T(), t, prev).(*sym))
	ex.addPC(symBinop(token.LSS, int64T(), t, int64(1)<<62).(*sym))
	ex.clock = t
	return t
}

// callValue calls an interpreted function value.
func callValue(fr *frame, fn value, args ...value) value {
	return call(fr.i, fr, token.NoPos, fn, args)
}

// errorString returns err.Error() of an interpreted error value ("" for nil).
func errorString(fr *frame, e value) value {
	it := e.(iface)
	if it.t == nil {
		return ""
	}
	m := fr.i.prog.LookupMethod(it.t, nil, "Error")
	if m == nil {
		panic(fmt.Sprintf("no Error method on %s", it.t))
	}
	return call(fr.i, fr, token.NoPos, m, []value{it.v})
}

func methodOf(fr *frame, it iface, name string) *ssa.Function {
	if it.t == nil {
		return nil
	}
	ms := fr.i.prog.MethodSets.MethodSet(it.t)
	for i := 0; i < ms.Len(); i++ {
		sel := ms.At(i)
		if sel.Obj().Name() == name {
			return fr.i.prog.MethodValue(sel)
		}
	}
	return nil
}

// formatArgs renders interpreted values for fmt; ok=false if a symbolic value is involved.
func formatArg(fr *frame, v value) (interface{}, bool) {
	switch x := v.(type) {
	case iface:
		if x.t == nil {
			return nil, true
		}
		if m := methodOf(fr, x, "Error"); m != nil && m.Signature.Params().Len() == 0 {
			s := call(fr.i, fr, token.NoPos, m, []value{x.v})
			if _, ok := s.(*sym); ok {
				return nil, false
			}
			return fmt.Errorf("%s", s.(string)), true
		}
		if m := methodOf(fr, x, "String"); m != nil && m.Signature.Params().Len() == 0 {
			s := call(fr.i, fr, token.NoPos, m, []value{x.v})
			if _, ok := s.(*sym); ok {
				return nil, false
			}
			return stringer(s.(string)), true
		}
		return formatArg(fr, x.v)
	case *sym, bstr:
		return nil, false
	case bool, int, int8, int16, int32, int64, uint, uint8, uint16, uint32, uint64, uintptr, float32, float64, string:
		return x, true
	case []value:
		out := make([]interface{}, len(x))
		for i := range x {
			o, ok := formatArg(fr, x[i])
			if !ok {
				return nil, false
			}
			out[i] = o
		}
		return out, true
	case *value:
		if x == nil {
			return nil, true
		}
		return fmt.Sprintf("%p", x), true
	}
	return toString(v), true
}

type stringer string

func (s stringer) String() string { return string(s) }

func sprintf(fr *frame, format value, args []value) value {
	f, ok := format.(string)
	if !ok {
		return fr.i.ex.fresh("fmt", sStr, 0)
	}
	anySym := false
	nat := make([]interface{}, len(args))
	for i, a := range args {
		o, ok := formatArg(fr, a)
		if !ok {
			anySym = true
			continue
		}
		nat[i] = o
	}
	if !anySym {
		return fmt.Sprintf(f, nat...)
	}
	// symbolic arguments: %s / %v of a symbolic string is the string itself; everything else is
	// formatted natively piecewise and concatenated
	var acc value = ""
	ai := 0
	strT := types.Typ[types.String]
	for k := 0; k < len(f); k++ {
		c := f[k]
		if c != '%' || k+1 >= len(f) {
			acc = binop(token.ADD, strT, acc, string(c))
			continue
		}
		k++
		verb := f[k]
		if verb == '%' {
			acc = binop(token.ADD, strT, acc, "%")
			continue
		}
		if ai >= len(args) {
			return fr.i.ex.fresh("fmt", sStr, 0)
		}
		a := args[ai]
		if it, ok := a.(iface); ok {
			a = it.v
		}
		if bs, ok := a.(bstr); ok {
			if verb != 's' && verb != 'v' {
				return fr.i.ex.fresh("fmt", sStr, 0)
			}
			acc = binop(token.ADD, strT, acc, bs)
		} else if s, ok := a.(*sym); ok {
			if s.k != sStr || (verb != 's' && verb != 'v') {
				return fr.i.ex.fresh("fmt", sStr, 0)
			}
			acc = binop(token.ADD, strT, acc, s)
		} else {
			if nat[ai] == nil {
				if o, ok := formatArg(fr, args[ai]); ok {
					nat[ai] = o
				}
			}
			acc = binop(token.ADD, strT, acc, fmt.Sprintf("%"+string(verb), nat[ai]))
		}
		ai++
	}
	return acc
}

func mkError(fr *frame, msg value) value {
	// build a *errors.errorString
	ep := fr.i.prog.ImportedPackage("errors")
	if ep == nil {
		panic(unsupported("package errors not loaded"))
	}
	t := ep.Type("errorString").Type()
	cell := value(structure{msg})
	return iface{t: types.NewPointer(t), v: &cell}
}

func boundOf(ex *exec, name string, def int64) int64 {
	if v, ok := ex.cfg.bounds[name]; ok {
		return v
	}
	return def
}

func init() {
	reg := func(name string, f externalFn) { intrinsics[name] = f }

	// ---------------- sync ----------------
	reg("(*sync.Mutex).Lock", func(fr *frame, a []value) value { fr.ex().lock(a[0].(*value), "Mutex.Lock"); return nil })
	reg("(*sync.Mutex).Unlock", func(fr *frame, a []value) value { fr.ex().unlock(a[0].(*value)); return nil })
	reg("(*sync.RWMutex).Lock", func(fr *frame, a []value) value { fr.ex().lock(a[0].(*value), "RWMutex.Lock"); return nil })
	reg("(*sync.RWMutex).Unlock", func(fr *frame, a []value) value { fr.ex().unlock(a[0].(*value)); return nil })
	reg("(*sync.RWMutex).RLock", func(fr *frame, a []value) value { fr.ex().rlock(a[0].(*value), "RWMutex.RLock"); return nil })
	reg("(*sync.RWMutex).RUnlock", func(fr *frame, a []value) value { fr.ex().runlock(a[0].(*value)); return nil })
	reg("(*sync.WaitGroup).Add", func(fr *frame, a []value) value {
		ex := fr.ex()
		ex.yieldK(false, ex.cfg.bounds["preempt_sync"] == 1)
		w := ex.wg(a[0].(*value))
		w.n += asInt64(a[1])
		if w.n < 0 {
			panic("sync: negative WaitGroup counter")
		}
		return nil
	})
	reg("(*sync.WaitGroup).Done", func(fr *frame, a []value) value {
		ex := fr.ex()
		ex.yieldK(false, ex.cfg.bounds["preempt_sync"] == 1)
		w := ex.wg(a[0].(*value))
		w.n--
		if w.n < 0 {
			panic("sync: negative WaitGroup counter")
		}
		return nil
	})
	reg("(*sync.WaitGroup).Wait", func(fr *frame, a []value) value {
		ex := fr.ex()
		ex.yieldK(false, false)
		w := ex.wg(a[0].(*value))
		ex.block(func() bool { return w.n == 0 }, "WaitGroup.Wait")
		return nil
	})
	reg("(*sync.Once).Do", func(fr *frame, a []value) value {
		ex := fr.ex()
		ex.yield()
		p := a[0].(*value)
		if !ex.onces[p] {
			ex.onces[p] = true
			callValue(fr, a[1])
		}
		return nil
	})
	syncMap := func(fr *frame, p value) *smap {
		ex := fr.ex()
		k := p.(*value)
		m := ex.syncMaps[k]
		if m == nil {
			m = &smap{kt: types.NewInterfaceType(nil, nil)}
			ex.syncMaps[k] = m
		}
		return m
	}
	reg("(*sync.Map).Load", func(fr *frame, a []value) value {
		m := syncMap(fr, a[0])
		if i := m.find(fr.ex(), a[1]); i >= 0 {
			return tuple{m.vals[i], true}
		}
		return tuple{iface{}, false}
	})
	reg("(*sync.Map).Store", func(fr *frame, a []value) value {
		syncMap(fr, a[0]).insert(fr.ex(), a[1], a[2])
		return nil
	})
	reg("(*sync.Map).Delete", func(fr *frame, a []value) value {
		syncMap(fr, a[0]).remove(fr.ex(), a[1])
		return nil
	})
	reg("(*sync.Map).Range", func(fr *frame, a []value) value {
		m := syncMap(fr, a[0])
		keys := append([]value{}, m.keys...)
		vals := append([]value{}, m.vals...)
		for i := range keys {
			if !fr.ex().truth(callValue(fr, a[1], keys[i], vals[i])) {
				break
			}
		}
		return nil
	})

	poolNew := func(fr *frame, a []value) value {
		p := a[0].(*value)
		st := (*p).(structure)
		// sync.Pool{noCopy, local, localSize, victim, victimSize, New}
		newFn := st[len(st)-1]
		if isNilRef(newFn) {
			return iface{}
		}
		return callValue(fr, newFn)
	}
	reg("(*sync.Pool).Get", poolNew)
	reg("(*sync.Pool).Put", func(fr *frame, a []value) value { return nil })

	// ---------------- sync/atomic ----------------
	for _, ty := range []string{"Int32", "Int64", "Uint32", "Uint64"} {
		ty := ty
		reg("sync/atomic.Load"+ty, func(fr *frame, a []value) value {
			fr.ex().yieldK(false, fr.ex().cfg.bounds["noatomicpreempt"] != 1)
			return *(a[0].(*value))
		})
		reg("sync/atomic.Store"+ty, func(fr *frame, a []value) value {
			fr.ex().yieldK(true, fr.ex().cfg.bounds["noatomicpreempt"] != 1)
			*(a[0].(*value)) = a[1]
			return nil
		})
		reg("sync/atomic.Add"+ty, func(fr *frame, a []value) value {
			fr.ex().yield()
			p := a[0].(*value)
			var t types.Type
			switch ty {
			case "Int32":
				t = types.Typ[types.Int32]
			case "Int64":
				t = types.Typ[types.Int64]
			case "Uint32":
				t = types.Typ[types.Uint32]
			default:
				t = types.Typ[types.Uint64]
			}
			*p = binop(token.ADD, t, *p, a[1])
			return *p
		})
		reg("sync/atomic.CompareAndSwap"+ty, func(fr *frame, a []value) value {
			fr.ex().yield()
			p := a[0].(*value)
			if fr.ex().truth(eqv(nil, *p, a[1])) {
				*p = a[2]
				return true
			}
			return false
		})
	}

	// ---------------- time ----------------
	reg("time.Now", func(fr *frame, a []value) value { return timeVal(fr.ex().now()) })
	reg("time.Since", func(fr *frame, a []value) value {
		return binop(token.SUB, int64T(), fr.ex().now(), timeNs(a[0]))
	})
	reg("(time.Time).Sub", func(fr *frame, a []value) value { return binop(token.SUB, int64T(), timeNs(a[0]), timeNs(a[1])) })
	reg("(time.Time).Before", func(fr *frame, a []value) value { return binop(token.LSS, int64T(), timeNs(a[0]), timeNs(a[1])) })
	reg("(time.Time).After", func(fr *frame, a []value) value { return binop(token.GTR, int64T(), timeNs(a[0]), timeNs(a[1])) })
	reg("(time.Time).Equal", func(fr *frame, a []value) value { return binop(token.EQL, int64T(), timeNs(a[0]), timeNs(a[1])) })
	reg("(time.Time).Compare", func(fr *frame, a []value) value {
		ex := fr.ex()
		if ex.truth(binop(token.LSS, int64T(), timeNs(a[0]), timeNs(a[1]))) {
			return -1
		}
		if ex.truth(binop(token.GTR, int64T(), timeNs(a[0]), timeNs(a[1]))) {
			return 1
		}
		return 0
	})
	reg("(time.Time).Add", func(fr *frame, a []value) value { return timeVal(binop(token.ADD, int64T(), timeNs(a[0]), a[1])) })
	reg("(time.Time).IsZero", func(fr *frame, a []value) value { return binop(token.EQL, int64T(), timeNs(a[0]), int64(0)) })
	reg("(time.Time).UnixNano", func(fr *frame, a []value) value { return timeNs(a[0]) })
	reg("(time.Time).Round", func(fr *frame, a []value) value { return a[0] })
	reg("(time.Time).Truncate", func(fr *frame, a []value) value { return a[0] })
	reg("(time.Time).In", func(fr *frame, a []value) value { return a[0] })
	reg("(time.Time).UTC", func(fr *frame, a []value) value { return a[0] })
	reg("(time.Time).Local", func(fr *frame, a []value) value { return a[0] })
	reg("(time.Duration).String", func(fr *frame, a []value) value {
		if d, ok := a[0].(int64); ok {
			return time.Duration(d).String()
		}
		return fr.ex().fresh("duration.String", sStr, 0)
	})
	// time.After / time.NewTimer.C: a channel that becomes ready at an arbitrary later point (threaded
	// mode: a helper thread sends after a switch point; L3 mode: never ready)
	reg("time.After", func(fr *frame, a []value) value {
		ex := fr.ex()
		ch := &vchan{cap: 1, elem: nil}
		if ex.threaded() {
			send := &nativeFn{name: "time.After.fire", fn: func(fr2 *frame, _ []value) value {
				ex.yield()
				ex.chanSend(ch, timeVal(ex.now()))
				return nil
			}}
			ex.startThread(fr.i, send, nil)
		}
		return ch
	})
	reg("time.Sleep", func(fr *frame, a []value) value {
		ex := fr.ex()
		if d, ok := a[0].(int64); ok {
			ex.notes["time.Sleep argument"] = time.Duration(d).String()
		}
		ex.sleep()
		return nil
	})

	// ---------------- errors / fmt ----------------
	reg("github.com/friendsofgo/errors.callers", func(fr *frame, a []value) value { return (*value)(nil) })
	reg("github.com/pkg/errors.callers", func(fr *frame, a []value) value { return (*value)(nil) })
	errorsIs := func(fr *frame, a []value) value {
		err, target := a[0].(iface), a[1].(iface)
		if err.t == nil || target.t == nil {
			return err.t == nil && target.t == nil
		}
		for depth := 0; depth < 32; depth++ {
			if sameType(err.t, target.t) {
				if _, isPtr := err.t.Underlying().(*types.Pointer); isPtr || types.Comparable(err.t) {
					if fr.ex().truth(eqv(err.t, err.v, target.v)) {
						return true
					}
				}
			}
			if m := methodOf(fr, err, "Is"); m != nil && m.Signature.Params().Len() == 1 {
				if fr.ex().truth(call(fr.i, fr, token.NoPos, m, []value{err.v, target})) {
					return true
				}
			}
			m := methodOf(fr, err, "Unwrap")
			if m == nil || m.Signature.Results().Len() != 1 {
				return false
			}
			nx, ok := call(fr.i, fr, token.NoPos, m, []value{err.v}).(iface)
			if !ok || nx.t == nil {
				return false
			}
			err = nx
		}
		return false
	}
	errorsAs := func(fr *frame, a []value) value {
		err, target := a[0].(iface), a[1].(iface)
		if err.t == nil || target.t == nil {
			return false
		}
		pt, ok := target.t.Underlying().(*types.Pointer)
		if !ok {
			panic("errors.As: target must be a non-nil pointer")
		}
		T := pt.Elem()
		cell := target.v.(*value)
		for depth := 0; depth < 32; depth++ {
			if it, isIface := T.Underlying().(*types.Interface); isIface {
				if types.Implements(err.t, it) {
					*cell = err
					return true
				}
			} else if types.Identical(err.t, T) {
				*cell = copyVal(T, err.v)
				return true
			}
			m := methodOf(fr, err, "Unwrap")
			if m == nil || m.Signature.Results().Len() != 1 {
				return false
			}
			nx, ok := call(fr.i, fr, token.NoPos, m, []value{err.v}).(iface)
			if !ok || nx.t == nil {
				return false
			}
			err = nx
		}
		return false
	}
	reg("errors.As", errorsAs)
	reg("github.com/friendsofgo/errors.As", errorsAs)
	reg("errors.Is", errorsIs)
	reg("github.com/friendsofgo/errors.Is", errorsIs)
	reg("errors.New", func(fr *frame, a []value) value { return mkError(fr, a[0]) })
	reg("fmt.Sprintf", func(fr *frame, a []value) value { return sprintf(fr, a[0], a[1].([]value)) })
	reg("fmt.Errorf", func(fr *frame, a []value) value {
		args := a[1].([]value)
		msg := sprintf(fr, a[0], args)
		e := mkError(fr, msg)
		// %w: keep the cause chain through a wrapError-like struct is not modelled; record it
		if f, ok := a[0].(string); ok && strings.Contains(f, "%w") {
			for _, x := range args {
				if it, ok := x.(iface); ok && it.t != nil && methodOf(fr, it, "Error") != nil {
					return wrapErr(fr, msg, it)
				}
			}
		}
		return e
	})
	reg("fmt.Sprint", func(fr *frame, a []value) value {
		var nat []interface{}
		for _, x := range a[0].([]value) {
			o, ok := formatArg(fr, x)
			if !ok {
				return fr.ex().fresh("fmt", sStr, 0)
			}
			nat = append(nat, o)
		}
		return fmt.Sprint(nat...)
	})
	noopIO := func(fr *frame, a []value) value { return tuple{0, iface{}} }
	reg("fmt.Fprintf", noopIO)
	reg("fmt.Fprintln", noopIO)
	reg("fmt.Fprint", noopIO)
	reg("fmt.Printf", noopIO)
	reg("fmt.Println", noopIO)

	// ---------------- strings / sort ----------------
	reg("strings.Join", func(fr *frame, a []value) value {
		elems := a[0].([]value)
		var acc value = ""
		for i, e := range elems {
			if i > 0 {
				acc = binop(token.ADD, types.Typ[types.String], acc, a[1])
			}
			acc = binop(token.ADD, types.Typ[types.String], acc, e)
		}
		return acc
	})
	// byte-sequence strings (bstr) in the strings package: matching is decided byte by byte (every
	// comparison with a symbolic byte is a solver-decided branch), the results keep their shape concrete
	u8t := types.Typ[types.Uint8]
	anyBstr := func(vs ...value) bool {
		for _, v := range vs {
			if isBstr(v) {
				return true
			}
		}
		return false
	}
	bytesOf := func(v value, what string) []value {
		bs, ok := strBytes(v)
		if !ok {
			panic(unsupported(what + ": byte-sequence string mixed with an unbounded symbolic string"))
		}
		return bs
	}
	matchAt := func(fr *frame, hay, needle []value, i int) bool {
		if i < 0 || i+len(needle) > len(hay) {
			return false
		}
		var acc value = true
		for k := range needle {
			acc = andV(acc, eqv(u8t, hay[i+k], needle[k]))
		}
		return fr.ex().truth(acc)
	}
	bIndex := func(fr *frame, hay, needle []value, from int) int {
		for i := from; i+len(needle) <= len(hay); i++ {
			if matchAt(fr, hay, needle, i) {
				return i
			}
		}
		return -1
	}
	bReplace := func(fr *frame, hay, old, nw []value, n int) value {
		if len(old) == 0 {
			panic(unsupported("strings.Replace with an empty pattern on a byte-sequence string"))
		}
		var out []value
		i := 0
		for n != 0 {
			j := bIndex(fr, hay, old, i)
			if j < 0 {
				break
			}
			out = append(out, hay[i:j]...)
			out = append(out, nw...)
			i = j + len(old)
			n--
		}
		out = append(out, hay[i:]...)
		return mkBstr(out)
	}
	reg("strings.HasPrefix", func(fr *frame, a []value) value {
		if anyBstr(a[0], a[1]) {
			return matchAt(fr, bytesOf(a[0], "HasPrefix"), bytesOf(a[1], "HasPrefix"), 0)
		}
		if isSym(a[0]) || isSym(a[1]) {
			return &sym{k: sBool, e: "(str.prefixof " + litOf(a[1]).e + " " + litOf(a[0]).e + ")"}
		}
		return strings.HasPrefix(a[0].(string), a[1].(string))
	})
	reg("strings.HasSuffix", func(fr *frame, a []value) value {
		if anyBstr(a[0], a[1]) {
			h, nd := bytesOf(a[0], "HasSuffix"), bytesOf(a[1], "HasSuffix")
			return matchAt(fr, h, nd, len(h)-len(nd))
		}
		if isSym(a[0]) || isSym(a[1]) {
			return &sym{k: sBool, e: "(str.suffixof " + litOf(a[1]).e + " " + litOf(a[0]).e + ")"}
		}
		return strings.HasSuffix(a[0].(string), a[1].(string))
	})
	reg("strings.Contains", func(fr *frame, a []value) value {
		if anyBstr(a[0], a[1]) {
			return bIndex(fr, bytesOf(a[0], "Contains"), bytesOf(a[1], "Contains"), 0) >= 0
		}
		if isSym(a[0]) || isSym(a[1]) {
			return &sym{k: sBool, e: "(str.contains " + litOf(a[0]).e + " " + litOf(a[1]).e + ")"}
		}
		return strings.Contains(a[0].(string), a[1].(string))
	})
	// internal/bytealg (assembly): on concrete strings natively; on byte-sequence strings by comparing
	// byte by byte (each comparison with a symbolic byte is a solver-decided branch)
	indexByte := func(fr *frame, hay value, c value) value {
		if hs, ok := hay.(string); ok {
			if cb, ok := c.(byte); ok {
				return strings.IndexByte(hs, cb)
			}
		}
		bs, ok := strBytes(hay)
		if !ok {
			if sl, ok2 := hay.([]value); ok2 {
				bs = sl
			} else {
				panic(unsupported("IndexByte on an unbounded symbolic string"))
			}
		}
		u8 := types.Typ[types.Uint8]
		for i, b := range bs {
			if fr.ex().truth(binop(token.EQL, u8, b, c)) {
				return i
			}
		}
		return -1
	}
	reg("internal/bytealg.IndexByteString", func(fr *frame, a []value) value { return indexByte(fr, a[0], a[1]) })
	reg("internal/bytealg.IndexByte", func(fr *frame, a []value) value { return indexByte(fr, a[0], a[1]) })
	reg("strings.IndexByte", func(fr *frame, a []value) value { return indexByte(fr, a[0], a[1]) })
	reg("internal/bytealg.CountString", func(fr *frame, a []value) value {
		bs, ok := strBytes(a[0])
		if !ok {
			panic(unsupported("CountString on an unbounded symbolic string"))
		}
		n := 0
		u8 := types.Typ[types.Uint8]
		for _, b := range bs {
			if fr.ex().truth(binop(token.EQL, u8, b, a[1])) {
				n++
			}
		}
		return n
	})
	reg("strings.ToLower", func(fr *frame, a []value) value { return strings.ToLower(asString(fr, a[0])) })
	reg("strings.ToUpper", func(fr *frame, a []value) value { return strings.ToUpper(asString(fr, a[0])) })
	reg("strings.TrimSpace", func(fr *frame, a []value) value { return strings.TrimSpace(asString(fr, a[0])) })
	reg("strings.Index", func(fr *frame, a []value) value {
		if anyBstr(a[0], a[1]) {
			return bIndex(fr, bytesOf(a[0], "Index"), bytesOf(a[1], "Index"), 0)
		}
		return strings.Index(asString(fr, a[0]), asString(fr, a[1]))
	})
	reg("strings.ContainsRune", func(fr *frame, a []value) value {
		r, ok := a[1].(int32)
		if !ok || r >= 0x80 {
			panic(unsupported("strings.ContainsRune with a symbolic or non-ASCII rune"))
		}
		if anyBstr(a[0]) {
			return bIndex(fr, bytesOf(a[0], "ContainsRune"), []value{byte(r)}, 0) >= 0
		}
		return strings.ContainsRune(asString(fr, a[0]), r)
	})
	reg("strings.Count", func(fr *frame, a []value) value {
		if anyBstr(a[0], a[1]) {
			h, nd := bytesOf(a[0], "Count"), bytesOf(a[1], "Count")
			if len(nd) == 0 {
				panic(unsupported("strings.Count with an empty pattern on a byte-sequence string"))
			}
			n, i := 0, 0
			for {
				j := bIndex(fr, h, nd, i)
				if j < 0 {
					return n
				}
				n++
				i = j + len(nd)
			}
		}
		return strings.Count(asString(fr, a[0]), asString(fr, a[1]))
	})
	reg("strings.Split", func(fr *frame, a []value) value {
		if anyBstr(a[0], a[1]) {
			h, nd := bytesOf(a[0], "Split"), bytesOf(a[1], "Split")
			if len(nd) == 0 {
				panic(unsupported("strings.Split with an empty separator on a byte-sequence string"))
			}
			var parts []value
			i := 0
			for {
				j := bIndex(fr, h, nd, i)
				if j < 0 {
					break
				}
				parts = append(parts, mkBstr(h[i:j]))
				i = j + len(nd)
			}
			return append(parts, mkBstr(h[i:]))
		}
		var out []value
		for _, s := range strings.Split(asString(fr, a[0]), asString(fr, a[1])) {
			out = append(out, s)
		}
		return out
	})
	reg("strings.Repeat", func(fr *frame, a []value) value { return strings.Repeat(asString(fr, a[0]), int(asInt64(a[1]))) })
	reg("strings.ReplaceAll", func(fr *frame, a []value) value {
		if anyBstr(a[0], a[1], a[2]) {
			return bReplace(fr, bytesOf(a[0], "ReplaceAll"), bytesOf(a[1], "ReplaceAll"), bytesOf(a[2], "ReplaceAll"), -1)
		}
		return strings.ReplaceAll(asString(fr, a[0]), asString(fr, a[1]), asString(fr, a[2]))
	})
	reg("strings.Replace", func(fr *frame, a []value) value {
		if anyBstr(a[0], a[1], a[2]) {
			return bReplace(fr, bytesOf(a[0], "Replace"), bytesOf(a[1], "Replace"), bytesOf(a[2], "Replace"), int(asInt64(a[3])))
		}
		return strings.Replace(asString(fr, a[0]), asString(fr, a[1]), asString(fr, a[2]), int(asInt64(a[3])))
	})
	reg("strings.TrimPrefix", func(fr *frame, a []value) value {
		if anyBstr(a[0], a[1]) {
			h, nd := bytesOf(a[0], "TrimPrefix"), bytesOf(a[1], "TrimPrefix")
			if matchAt(fr, h, nd, 0) {
				return mkBstr(h[len(nd):])
			}
			return a[0]
		}
		return strings.TrimPrefix(asString(fr, a[0]), asString(fr, a[1]))
	})
	reg("strings.TrimSuffix", func(fr *frame, a []value) value {
		if anyBstr(a[0], a[1]) {
			h, nd := bytesOf(a[0], "TrimSuffix"), bytesOf(a[1], "TrimSuffix")
			if matchAt(fr, h, nd, len(h)-len(nd)) {
				return mkBstr(h[:len(h)-len(nd)])
			}
			return a[0]
		}
		return strings.TrimSuffix(asString(fr, a[0]), asString(fr, a[1]))
	})
	reg("strings.Fields", func(fr *frame, a []value) value {
		var out []value
		for _, s := range strings.Fields(asString(fr, a[0])) {
			out = append(out, s)
		}
		return out
	})
	// strings.Builder: kept in a side table (the real one uses unsafe)
	sb := func(fr *frame, p value) *[]value {
		ex := fr.ex()
		k := p.(*value)
		if ex.builders == nil {
			ex.builders = map[*value]*[]value{}
		}
		b := ex.builders[k]
		if b == nil {
			b = &[]value{}
			ex.builders[k] = b
		}
		return b
	}
	sbString := func(parts []value) value {
		var acc value = ""
		for _, p := range parts {
			acc = binop(token.ADD, types.Typ[types.String], acc, p)
		}
		return acc
	}
	reg("(*strings.Builder).WriteString", func(fr *frame, a []value) value {
		b := sb(fr, a[0])
		*b = append(*b, a[1])
		if s, ok := a[1].(string); ok {
			return tuple{len(s), iface{}}
		}
		if s, ok := a[1].(bstr); ok {
			return tuple{len(s), iface{}}
		}
		return tuple{0, iface{}}
	})
	reg("(*strings.Builder).WriteByte", func(fr *frame, a []value) value {
		b := sb(fr, a[0])
		*b = append(*b, mkBstr([]value{a[1]}))
		return iface{}
	})
	reg("(*strings.Builder).WriteRune", func(fr *frame, a []value) value {
		b := sb(fr, a[0])
		*b = append(*b, string(rune(a[1].(int32))))
		return tuple{1, iface{}}
	})
	reg("(*strings.Builder).Write", func(fr *frame, a []value) value {
		b := sb(fr, a[0])
		bs := a[1].([]value)
		*b = append(*b, mkBstr(bs))
		return tuple{len(bs), iface{}}
	})
	reg("(*strings.Builder).String", func(fr *frame, a []value) value { return sbString(*sb(fr, a[0])) })
	reg("(*strings.Builder).Len", func(fr *frame, a []value) value {
		switch s := sbString(*sb(fr, a[0])).(type) {
		case string:
			return len(s)
		case bstr:
			return len(s)
		}
		panic(unsupported("Builder.Len with symbolic content"))
	})
	reg("(*strings.Builder).Grow", func(fr *frame, a []value) value { return nil })
	reg("(*strings.Builder).Reset", func(fr *frame, a []value) value { *sb(fr, a[0]) = nil; return nil })
	reg("strconv.Itoa", func(fr *frame, a []value) value { return fmt.Sprint(asInt64(a[0])) })
	reg("bytes.Equal", func(fr *frame, a []value) value {
		x, y := a[0].([]value), a[1].([]value)
		if len(x) != len(y) {
			return false
		}
		var acc value = true
		for i := range x {
			acc = andV(acc, eqv(types.Typ[types.Uint8], x[i], y[i]))
		}
		return acc
	})
	// sort.Slice: the real pdqsort_func with an engine-provided swapper.
	reg("sort.Slice", func(fr *frame, a []value) value {
		x := a[0].(iface)
		sl := x.v.([]value)
		et := x.t.Underlying().(*types.Slice).Elem()
		swap := &nativeFn{name: "swapper", fn: func(fr *frame, s []value) value {
			i, j := fr.index(s[0], len(sl)), fr.index(s[1], len(sl))
			ti := copyVal(et, sl[i])
			store(et, &sl[i], sl[j])
			store(et, &sl[j], ti)
			return nil
		}}
		sp := fr.i.prog.ImportedPackage("sort")
		pdq := sp.Func("pdqsort_func")
		if pdq == nil {
			panic(unsupported("sort.pdqsort_func not found"))
		}
		n := len(sl)
		limit := 0
		for v := n; v > 0; v >>= 1 {
			limit++
		}
		callValue(fr, pdq, structure{a[1], swap}, 0, n, limit)
		return nil
	})
	reg("sort.SliceStable", func(fr *frame, a []value) value { panic(unsupported("sort.SliceStable")) })
	reg("internal/reflectlite.Swapper", func(fr *frame, a []value) value { panic(unsupported("reflectlite.Swapper")) })
	reg("math/bits.Len", func(fr *frame, a []value) value {
		n := 0
		for v := uint64(asInt64(a[0])); v > 0; v >>= 1 {
			n++
		}
		return n
	})
	reg("math/bits.Len64", intrinsics["math/bits.Len"])

	// ---------------- reflect (minimal: ValueOf(x).Kind()) ----------------
	reg("reflect.ValueOf", func(fr *frame, a []value) value {
		return structure{a[0], (*value)(nil), uintptr(0)}
	})
	reg("(reflect.Value).Kind", func(fr *frame, a []value) value {
		it, ok := a[0].(structure)[0].(iface)
		if !ok || it.t == nil {
			return uint(0)
		}
		switch t := it.t.Underlying().(type) {
		case *types.Basic:
			switch {
			case t.Info()&types.IsString != 0:
				return uint(24)
			case t.Info()&types.IsBoolean != 0:
				return uint(1)
			case t.Kind() == types.Int:
				return uint(2)
			case t.Kind() == types.Int64:
				return uint(6)
			case t.Kind() == types.Float64:
				return uint(14)
			}
			return uint(2)
		case *types.Slice:
			return uint(23)
		case *types.Map:
			return uint(21)
		case *types.Pointer:
			return uint(22)
		case *types.Struct:
			return uint(25)
		}
		return uint(0)
	})

	// ---------------- os / misc ----------------
	reg("os.Getenv", func(fr *frame, a []value) value { return "" })
	reg("runtime.Gosched", func(fr *frame, a []value) value { fr.ex().yield(); return nil })
	reg("runtime.KeepAlive", func(fr *frame, a []value) value { return nil })
	reg("runtime.SetFinalizer", func(fr *frame, a []value) value { return nil })
}

// wrapErr builds a friendsofgo withMessage-like chain using *fmt.wrapError when available.
func wrapErr(fr *frame, msg value, cause iface) value {
	fp := fr.i.prog.ImportedPackage("fmt")
	if fp == nil || fp.Type("wrapError") == nil {
		return mkError(fr, msg)
	}
	t := fp.Type("wrapError").Type()
	cell := value(structure{msg, cause})
	return iface{t: types.NewPointer(t), v: &cell}
}

// ------------------------------------------------------------------------------------------
// Harness vocabulary

var verifFns = map[string]externalFn{}

func init() {
	reg := func(name string, f externalFn) { verifFns[name] = f }
	name := func(fr *frame, v value) string { return asString(fr, v) }

	reg("verifInt", func(fr *frame, a []value) value { return fr.ex().fresh(name(fr, a[0]), sBV, 64) })
	reg("verifInt64", func(fr *frame, a []value) value { return fr.ex().fresh(name(fr, a[0]), sBV, 64) })
	reg("verifInt16", func(fr *frame, a []value) value { return fr.ex().fresh(name(fr, a[0]), sBV, 16) })
	reg("verifByte", func(fr *frame, a []value) value { return fr.ex().fresh(name(fr, a[0]), sBV, 8) })
	reg("verifBool", func(fr *frame, a []value) value { return fr.ex().fresh(name(fr, a[0]), sBool, 0) })
	reg("verifString", func(fr *frame, a []value) value { return fr.ex().fresh(name(fr, a[0]), sStr, 0) })
	reg("verifFloat64", func(fr *frame, a []value) value { return fr.ex().fresh(name(fr, a[0]), sFP, 0) })
	reg("verifAnd", func(fr *frame, a []value) value { return andV(a[0], a[1]) })
	reg("verifOr", func(fr *frame, a []value) value { return orV(a[0], a[1]) })
	reg("verifNot", func(fr *frame, a []value) value { return notV(a[0]) })
	reg("verifImplies", func(fr *frame, a []value) value { return orV(notV(a[0]), a[1]) })
	reg("verifIte", func(fr *frame, a []value) value {
		switch c := a[0].(type) {
		case bool:
			if c {
				return a[1]
			}
			return a[2]
		case *sym:
			return mkIte(c, litOf(a[1]), litOf(a[2]))
		}
		panic("verifIte")
	})
	reg("verifInt64Range", func(fr *frame, a []value) value {
		ex := fr.ex()
		v := ex.fresh(name(fr, a[0]), sBV, 64)
		ex.addPC(symBinop(token.GEQ, int64T(), v, a[1]).(*sym))
		ex.addPC(symBinop(token.LSS, int64T(), v, a[2]).(*sym))
		return v
	})
	reg("verifChoose", func(fr *frame, a []value) value {
		n := int(asInt64(a[1]))
		return fr.ex().choose(name(fr, a[0]), n)
	})
	reg("verifAssume", func(fr *frame, a []value) value { fr.ex().assume(a[0], "assume@"+callerPos(fr)); return nil })
	reg("verifAssert", func(fr *frame, a []value) value { fr.ex().assert(a[0], name(fr, a[1])); return nil })
	reg("verifFail", func(fr *frame, a []value) value { fr.ex().assert(false, name(fr, a[0])); return nil })
	reg("verifUnsupported", func(fr *frame, a []value) value { panic(unsupported("harness: " + name(fr, a[0]))) })
	reg("verifReach", func(fr *frame, a []value) value { fr.ex().reach[name(fr, a[0])] = true; return nil })
	reg("verifNote", func(fr *frame, a []value) value { fr.ex().notes[name(fr, a[0])] = name(fr, a[1]); return nil })
	reg("verifEvent", func(fr *frame, a []value) value {
		ex := fr.ex()
		s := name(fr, a[0])
		var terms []*sym
		for _, x := range a[1].([]value) {
			x := x.(iface).v
			if sx, ok := x.(*sym); ok {
				s += " $"
				terms = append(terms, sx)
			} else {
				s += " " + toString(x)
			}
		}
		ex.event(s, terms...)
		return nil
	})
	reg("verifIntercept", func(fr *frame, a []value) value {
		fn := a[1].(iface).v
		fr.ex().intercepts[name(fr, a[0])] = fn
		return nil
	})
	reg("verifGoMode", func(fr *frame, a []value) value {
		ex := fr.ex()
		ex.goMode = int(asInt64(a[0]))
		return nil
	})
	reg("verifSpawnedCount", func(fr *frame, a []value) value { return len(fr.ex().spawned) })
	reg("verifSpawnedPending", func(fr *frame, a []value) value {
		i := int(asInt64(a[0]))
		return !fr.ex().spawned[i].ran
	})
	reg("verifSpawnedTag", func(fr *frame, a []value) value { return fr.ex().spawned[int(asInt64(a[0]))].tag })
	reg("verifSpawnedValues", func(fr *frame, a []value) value {
		// closure bindings and call arguments of a pending goroutine, as interface values
		s := fr.ex().spawned[int(asInt64(a[0]))]
		var out []value
		var f *ssa.Function
		switch fn := s.fn.(type) {
		case *closure:
			f = fn.Fn
			for i, fv := range f.FreeVars {
				out = append(out, iface{t: fv.Type(), v: fn.Env[i]})
			}
		case *ssa.Function:
			f = fn
		}
		if f != nil {
			for i, p := range f.Params {
				if i < len(s.args) {
					out = append(out, iface{t: p.Type(), v: s.args[i]})
				}
			}
		}
		return out
	})
	reg("verifRunSpawned", func(fr *frame, a []value) value {
		ex := fr.ex()
		s := ex.spawned[int(asInt64(a[0]))]
		if s.ran {
			panic(pathEnd{"abort", "verifRunSpawned: already ran"})
		}
		s.ran = true
		call(fr.i, fr, token.NoPos, s.fn, s.args)
		return nil
	})
	reg("verifStartSpawned", func(fr *frame, a []value) value {
		// turn a pending goroutine (recorded in L3 mode) into a thread (threaded mode)
		ex := fr.ex()
		s := ex.spawned[int(asInt64(a[0]))]
		if s.ran {
			panic(pathEnd{"abort", "verifStartSpawned: already ran"})
		}
		s.ran = true
		ex.startThread(fr.i, s.fn, s.args)
		return nil
	})
	reg("verifGo", func(fr *frame, a []value) value {
		ex := fr.ex()
		ex.startThread(fr.i, a[0].(iface).v, nil)
		return nil
	})
	reg("verifTime", func(fr *frame, a []value) value { return timeVal(a[0]) })
	reg("verifTimeNs", func(fr *frame, a []value) value { return timeNs(a[0]) })
	reg("verifSetClock", func(fr *frame, a []value) value { fr.ex().clock = a[0]; return nil })
	reg("verifBound", func(fr *frame, a []value) value { return int(boundOf(fr.ex(), name(fr, a[0]), asInt64(a[1]))) })
	reg("verifIsSymbolic", func(fr *frame, a []value) value { return isSym(a[0].(iface).v) })
	reg("verifYield", func(fr *frame, a []value) value { fr.ex().yield(); return nil })
	reg("verifYieldAny", func(fr *frame, a []value) value {
		// a switch point at which any runnable thread may continue, not charged to the preemption bound
		ex := fr.ex()
		if !ex.threaded() {
			return nil
		}
		saved := ex.preemptions
		ex.preemptions = -1 << 30
		ex.yieldK(false, true)
		ex.preemptions = saved
		return nil
	})
	reg("verifSleep", func(fr *frame, a []value) value { fr.ex().sleep(); return nil })
	reg("verifBlockUntil", func(fr *frame, a []value) value {
		ex := fr.ex()
		f := a[0]
		ex.yield()
		ex.block(func() bool { return ex.truth(callValue(fr, f)) }, "verifBlockUntil")
		return nil
	})
	reg("verifThreadsAlive", func(fr *frame, a []value) value {
		n := 0
		for _, t := range fr.ex().threads[1:] {
			if !t.done {
				n++
			}
		}
		return n
	})
	reg("verifLockMode", func(fr *frame, a []value) value {
		p := a[0].(iface).v.(*value)
		m := fr.ex().mutex(p)
		if m.w {
			return 2
		}
		if m.r > 0 {
			return 1
		}
		return 0
	})
	reg("verifWaitGroupCount", func(fr *frame, a []value) value {
		p := a[0].(iface).v.(*value)
		return int(fr.ex().wg(p).n)
	})
	reg("verifArbitrary", func(fr *frame, a []value) value {
		p := a[1].(iface)
		pt := p.t.Underlying().(*types.Pointer)
		ptr := p.v.(*value)
		*ptr = fr.ex().arbitrary(fr, name(fr, a[0]), pt.Elem(), 0)
		return nil
	})
	reg("verifDeepEqual", func(fr *frame, a []value) value {
		x, y := a[0].(iface), a[1].(iface)
		if !sameType(x.t, y.t) {
			return false
		}
		if x.t == nil {
			return true
		}
		return fr.ex().deepEqual(fr, x.t, x.v, y.v, map[[2]interface{}]bool{})
	})
	reg("verifClone", func(fr *frame, a []value) value {
		x := a[0].(iface)
		if x.t == nil {
			return x
		}
		return iface{t: x.t, v: fr.ex().deepClone(x.t, x.v, map[interface{}]value{})}
	})
	reg("verifSortStrings", func(fr *frame, a []value) value {
		// concrete helper for harness bookkeeping
		sl := a[0].([]value)
		ss := make([]string, len(sl))
		for i := range sl {
			ss[i] = sl[i].(string)
		}
		sort.Strings(ss)
		for i := range sl {
			sl[i] = ss[i]
		}
		return nil
	})
	reg("verifTrackLocks", func(fr *frame, a []value) value {
		ex := fr.ex()
		ex.track = &lockTrack{mx: a[0].(iface).v.(*value), root: a[1].(iface)}
		ex.trackReach(fr)
		return nil
	})
	reg("verifTrackRefresh", func(fr *frame, a []value) value { fr.ex().trackReach(fr); return nil })
	reg("verifTrackAllow", func(fr *frame, a []value) value {
		ex := fr.ex()
		if ex.track != nil {
			ex.track.allow[name(fr, a[0])] = true
		}
		return nil
	})
	// static facts read from SSA: which global another global is initialised from, and the value of a
	// bool field of the struct literal a global is built from (package initialisers are not executed)
	reg("verifGlobalInitSource", func(fr *frame, a []value) value { return staticInitSource(fr.i.prog, name(fr, a[0])) })
	reg("verifGlobalLiteralBool", func(fr *frame, a []value) value {
		return staticLiteralBool(fr.i.prog, name(fr, a[0]), name(fr, a[1]))
	})
	reg("verifSameFunc", func(fr *frame, a []value) value {
		x, y := a[0].(iface).v, a[1].(iface).v
		switch fx := x.(type) {
		case *ssa.Function:
			fy, ok := y.(*ssa.Function)
			return ok && fx == fy
		case *closure:
			fy, ok := y.(*closure)
			return ok && (fx == fy || (fx.Fn == fy.Fn && len(fx.Env) == 0))
		}
		return false
	})
	reg("verifFuncName", func(fr *frame, a []value) value {
		switch fx := a[0].(iface).v.(type) {
		case *ssa.Function:
			if fx == nil {
				return ""
			}
			return fx.String()
		case *closure:
			return fx.Fn.String()
		}
		return ""
	})
	reg("verifCallArgSource", func(fr *frame, a []value) value {
		return staticCallArgSource(fr.i.prog, name(fr, a[0]), name(fr, a[1]), int(asInt64(a[2])))
	})
	reg("verifCallConstArg", func(fr *frame, a []value) value {
		return staticCallConstArg(fr.i.prog, name(fr, a[0]), name(fr, a[1]), int(asInt64(a[2])))
	})
	reg("verifTrackDisallow", func(fr *frame, a []value) value {
		ex := fr.ex()
		if ex.track != nil {
			delete(ex.track.allow, name(fr, a[0]))
		}
		return nil
	})
	reg("verifPermuteMaps", func(fr *frame, a []value) value { fr.ex().permute = fr.ex().truth(a[0]); return nil })
}

func callerPos(fr *frame) string {
	if fr.caller != nil && fr.caller.fn != nil {
		return fr.caller.fn.Name()
	}
	return "?"
}

func findGlobal(prog *ssa.Program, full string) (*ssa.Global, *ssa.Function) {
	k := strings.LastIndex(full, ".")
	if k < 0 {
		return nil, nil
	}
	pkg := prog.ImportedPackage(full[:k])
	if pkg == nil {
		return nil, nil
	}
	g, _ := pkg.Members[full[k+1:]].(*ssa.Global)
	return g, pkg.Func("init")
}

func storeToGlobal(g *ssa.Global, init *ssa.Function) ssa.Value {
	if g == nil || init == nil {
		return nil
	}
	var val ssa.Value
	for _, b := range init.Blocks {
		for _, in := range b.Instrs {
			if st, ok := in.(*ssa.Store); ok && st.Addr == g {
				val = st.Val
			}
		}
	}
	return val
}

// staticInitSource: "pkg.X" if global `full` is initialised by a plain load of global X.
func staticInitSource(prog *ssa.Program, full string) string {
	g, init := findGlobal(prog, full)
	v := storeToGlobal(g, init)
	for depth := 0; v != nil && depth < 8; depth++ {
		switch x := v.(type) {
		case *ssa.UnOp:
			if gg, ok := x.X.(*ssa.Global); ok {
				return gg.String()
			}
			v = x.X
		case *ssa.MakeInterface:
			v = x.X
		case *ssa.ChangeInterface:
			v = x.X
		case *ssa.ChangeType:
			v = x.X
		default:
			return ""
		}
	}
	return ""
}

// staticLiteralBool: value of bool field `field` in the struct literal from which global `full` is
// computed (directly or through a method call on the literal): 1 true, 0 false/unset, -1 unknown.
func staticLiteralBool(prog *ssa.Program, full, field string) int {
	g, init := findGlobal(prog, full)
	v := storeToGlobal(g, init)
	for depth := 0; v != nil && depth < 8; depth++ {
		switch x := v.(type) {
		case *ssa.Call:
			if len(x.Call.Args) == 0 {
				return -1
			}
			v = x.Call.Args[0]
		case *ssa.MakeInterface:
			v = x.X
		case *ssa.UnOp:
			al, ok := x.X.(*ssa.Alloc)
			if !ok {
				return -1
			}
			res := 0
			for _, b := range init.Blocks {
				for _, in := range b.Instrs {
					st, ok := in.(*ssa.Store)
					if !ok {
						continue
					}
					fa, ok := st.Addr.(*ssa.FieldAddr)
					if !ok || fa.X != al {
						continue
					}
					stt := mustDeref(al.Type()).Underlying().(*types.Struct)
					if stt.Field(fa.Field).Name() != field {
						continue
					}
					c, ok := st.Val.(*ssa.Const)
					if !ok {
						return -1
					}
					if constValue(c) == true {
						res = 1
					} else {
						res = 0
					}
				}
			}
			return res
		default:
			return -1
		}
	}
	return -1
}

// staticCallConstArg: the constant string passed as argument `idx` by every call to `callee` in
// package `pkgPath` ("" if there is no such call, "<non-constant>" / "<conflicting>" otherwise).
func staticCallConstArg(prog *ssa.Program, pkgPath, callee string, idx int) string {
	pkg := prog.ImportedPackage(pkgPath)
	if pkg == nil {
		return ""
	}
	res := ""
	var visit func(f *ssa.Function)
	seen := map[*ssa.Function]bool{}
	visit = func(f *ssa.Function) {
		if f == nil || seen[f] {
			return
		}
		seen[f] = true
		for _, b := range f.Blocks {
			for _, in := range b.Instrs {
				var cc *ssa.CallCommon
				switch x := in.(type) {
				case *ssa.Call:
					cc = &x.Call
				case *ssa.Go:
					cc = &x.Call
				case *ssa.Defer:
					cc = &x.Call
				}
				if cc == nil {
					continue
				}
				if sc := cc.StaticCallee(); sc != nil && sc.String() == callee && idx < len(cc.Args) {
					v := "<non-constant>"
					if c, ok := cc.Args[idx].(*ssa.Const); ok {
						if s, ok := constValue(c).(string); ok {
							v = s
						}
					}
					if res != "" && res != v {
						res = "<conflicting>"
					} else if res == "" {
						res = v
					}
				}
			}
		}
		for _, an := range f.AnonFuncs {
			visit(an)
		}
	}
	for _, m := range pkg.Members {
		if f, ok := m.(*ssa.Function); ok {
			visit(f)
		}
	}
	return res
}

// staticCallArgSource describes where argument `idx` of every call to `callee` in package pkgPath
// comes from: "callee(const args)" if it is the result of a static call, "const:<v>" for constants.
func staticCallArgSource(prog *ssa.Program, pkgPath, callee string, idx int) string {
	pkg := prog.ImportedPackage(pkgPath)
	if pkg == nil {
		return ""
	}
	res := ""
	describe := func(v ssa.Value) string {
		switch x := v.(type) {
		case *ssa.Const:
			return "const:" + x.Value.String()
		case *ssa.Call:
			if sc := x.Call.StaticCallee(); sc != nil {
				var cs []string
				for _, a := range x.Call.Args {
					if c, ok := a.(*ssa.Const); ok && c.Value != nil {
						cs = append(cs, c.Value.String())
					}
				}
				return sc.String() + "(" + strings.Join(cs, ",") + ")"
			}
		}
		return "<other>"
	}
	seen := map[*ssa.Function]bool{}
	var visit func(f *ssa.Function)
	visit = func(f *ssa.Function) {
		if f == nil || seen[f] {
			return
		}
		seen[f] = true
		for _, b := range f.Blocks {
			for _, in := range b.Instrs {
				if c, ok := in.(*ssa.Call); ok {
					if sc := c.Call.StaticCallee(); sc != nil && sc.String() == callee && idx < len(c.Call.Args) {
						d := describe(c.Call.Args[idx])
						if res != "" && res != d {
							res = "<conflicting>"
						} else if res == "" {
							res = d
						}
					}
				}
			}
		}
		for _, an := range f.AnonFuncs {
			visit(an)
		}
	}
	for _, m := range pkg.Members {
		if f, ok := m.(*ssa.Function); ok {
			visit(f)
		}
	}
	return res
}
