package config

// C14 (configuration part): a configuration is accepted only with a JWT secret of at least 16
// characters; the secret is a symbolic string.

func VerifC14Config() {
	secret := verifString("jwt_secret")
	c := Config{JWTSecret: secret}
	err := c.validate()
	if err == nil {
		verifReach("accepted")
		verifAssert(len(secret) >= 16, "C14.accepted-secret-has-minimum-length")
	} else {
		verifReach("rejected")
		verifAssert(len(secret) < 16, "C14.long-enough-secret-accepted")
		if secret == "" {
			verifAssert(err == ErrMissingJWTSecret, "C14.missing-secret-reported-as-missing")
		}
	}
}

var verifEntries = map[string]func(){"VerifC14Config": VerifC14Config}
