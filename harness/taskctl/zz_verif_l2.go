package taskctl

// L2: the real Scheduler.Schedule / Cancel / isDone / checkStatus / runStage with the real upstream
// ExecutionGraph and Stage, run multi-threaded under the engine's scheduler (every interleaving at
// visible operations within the preemption bound), against the most general Runner allowed by the
// runner contract G1. Checks the scheduler contract G2 that the L3 harness assumes, i.e. the
// scheduler-level clauses of C02, C04 and C08.

import (
	"context"

	"github.com/friendsofgo/errors"
	"github.com/taskctl/taskctl/pkg/scheduler"
	"github.com/taskctl/taskctl/pkg/task"
	"github.com/taskctl/taskctl/pkg/variables"
)

type vStage struct {
	name      string
	deps      []int
	allowFail bool
	runs      int
	inFlight  bool
	finished  bool
	ok        bool
	failed    bool
	canceled  bool
}

type vL2 struct {
	stages          []*vStage
	sched           *Scheduler
	inflight        int
	cancelRequested bool // Scheduler.Cancel entered
	cancelDelivered bool // runner.Cancel reached: contexts of running tasks are canceled
	cancelReturned  bool
	scheduleRet     bool
	failFast        bool
	anyTaskError    bool
	callbacksAfter  int
}

var vL *vL2

var vRunErr = errors.New("exit status 1")

type vStubRunner struct{}

func (m *vStubRunner) SetOnTaskChange(f func(t *task.Task)) {}
func (m *vStubRunner) Finish()                              {}

// Cancel: cancels the context of every running task exactly once and returns only when no Run is
// in flight (G1c).
func (m *vStubRunner) Cancel() {
	verifEvent("runner.Cancel delivered")
	vL.cancelDelivered = true
	verifBlockUntil(func() bool { return vL.inflight == 0 })
}

func (l *vL2) byName(n string) *vStage {
	for _, s := range l.stages {
		if s.name == n {
			return s
		}
	}
	return nil
}

// Run is the most general task run: it begins, takes some time (other threads may run), and ends
// with success or failure - or with context.Canceled if the cancel was delivered before it ended.
func (m *vStubRunner) Run(t *task.Task) error {
	l := vL
	st := l.byName(t.Name)
	if st == nil {
		verifFail("harness: Run of unknown stage")
		return nil
	}
	verifAssert(!l.scheduleRet, "C01.task-interval-inside-schedule-span")
	if l.cancelDelivered {
		// G1a: a runner whose context is already canceled executes nothing
		verifReach("run.refused-after-cancel")
		verifEvent("Run " + st.name + " refused (context already canceled)")
		return context.Canceled
	}
	st.runs++
	verifAssert(st.runs <= 1, "C02.task-runs-at-most-once")
	for _, d := range st.deps {
		dep := l.stages[d]
		verifAssert(dep.finished && (dep.ok || (dep.failed && dep.allowFail)), "C02.task-begins-only-after-dependencies")
		if dep.failed && dep.allowFail {
			verifReach("run.after-allowed-failure")
		}
	}
	verifAssert(!l.cancelReturned, "C04.no-task-begins-after-stop-was-delivered")
	st.inFlight = true
	l.inflight++
	verifEvent("Run " + st.name + " begins")
	verifYield() // the task takes time
	outcome := 0
	if !l.cancelDelivered {
		outcome = verifChoose("outcome."+st.name, 2)
	}
	res := error(nil)
	reaction := 0
	if l.cancelDelivered && verifBound("reactions", 0) == 1 {
		// told to stop while running: the command dies of the interrupt (0), or handles it and exits
		// with a status of its own (1), or finishes regularly (2)
		reaction = verifChoose("reaction-to-stop."+st.name, 3)
	}
	if l.cancelDelivered && reaction == 0 {
		// told to stop while running
		verifReach("run.canceled-in-flight")
		st.canceled = true
		res = context.Canceled
	} else if (l.cancelDelivered && reaction == 1) || (!l.cancelDelivered && outcome == 1) {
		st.failed = true
		res = vRunErr
		if !st.allowFail {
			l.anyTaskError = true
			if l.failFast {
				// prunner's HandleTaskChange: fail-fast delivers a cancel asynchronously
				go l.sched.Cancel()
			}
		}
	} else {
		st.ok = true
	}
	st.finished = true
	st.inFlight = false
	l.inflight--
	if res == nil {
		verifEvent("Run " + st.name + " ends ok")
	} else if st.canceled {
		verifEvent("Run " + st.name + " ends canceled")
	} else {
		verifEvent("Run " + st.name + " ends with failure")
	}
	return res
}

// shapes over stages s0,s1,s2 (edges only from lower to higher index)
func vDeps(n int, shape int) [][]int {
	deps := make([][]int, n)
	bit := 0
	for j := 1; j < n; j++ {
		for i := 0; i < j; i++ {
			if shape&(1<<bit) != 0 {
				deps[j] = append(deps[j], i)
			}
			bit++
		}
	}
	return deps
}

func vHasFailedAncestor(l *vL2, st *vStage) bool {
	for _, d := range st.deps {
		dep := l.stages[d]
		if (dep.failed && !dep.allowFail) || dep.canceled || vHasFailedAncestor(l, dep) {
			return true
		}
		if !dep.finished {
			return true
		}
	}
	return false
}

// VerifL2Schedule explores every schedule of Schedule() over graphs with up to n stages, every
// outcome vector, allow_failure vector, with and without a concurrent Cancel and fail-fast.
func VerifL2Schedule() {
	verifGoMode(1)
	n := verifBound("stages", 2)
	nEdges := n * (n - 1) / 2
	shape := verifBound("shapeonly", -1)
	if shape < 0 {
		shape = verifChoose("shape", 1<<nEdges)
	}
	deps := vDeps(n, shape)
	l := &vL2{}
	vL = l
	var stages []*scheduler.Stage
	names := []string{"s0", "s1", "s2", "s3"}
	for i := 0; i < n; i++ {
		af := verifChoose("allow_failure."+names[i], 2) == 1
		st := &vStage{name: names[i], deps: deps[i], allowFail: af}
		l.stages = append(l.stages, st)
		t := task.FromCommands("x")
		t.Name = names[i]
		t.AllowFailure = af
		var dn []string
		for _, d := range deps[i] {
			dn = append(dn, names[d])
		}
		stages = append(stages, &scheduler.Stage{Name: names[i], Task: t, DependsOn: dn, AllowFailure: af,
			Variables: variables.FromMap(map[string]string{JobIDVariableName: "job"})})
	}
	g, err := scheduler.NewExecutionGraph(stages...)
	if err != nil {
		verifFail("C02.acyclic-graph-accepted")
		return
	}
	s := NewScheduler(&vStubRunner{})
	l.sched = s
	s.OnStageChange(func(stage *scheduler.Stage) {
		if l.scheduleRet {
			l.callbacksAfter++
		}
		if verifBound("callbackyield", 0) == 1 {
			// the stage-change callback takes time (prunner's takes the runner-wide mutex): a switch
			// point (charged to the preemption bound)
			verifYield()
		}
	})
	for i, st := range l.stages {
		d := ""
		for _, x := range deps[i] {
			d += " " + names[x]
		}
		af := ""
		if st.allowFail {
			af = " allow_failure"
		}
		verifEvent("stage " + st.name + " depends_on[" + d + " ]" + af)
	}
	mode := verifChoose("mode", verifBound("modes", 3)) // 0 undisturbed, 1 external cancel at any point, 2 fail-fast
	switch mode {
	case 1:
		go func() {
			l.cancelRequested = true
			verifEvent("Scheduler.Cancel called")
			s.Cancel()
			l.cancelReturned = true
		}()
	case 2:
		l.failFast = true
		verifEvent("fail-fast mode")
	}
	res := s.Schedule(g)
	l.scheduleRet = true
	if res == nil {
		verifEvent("Schedule returns nil")
	} else if errors.Is(res, context.Canceled) {
		verifEvent("Schedule returns canceled")
	} else {
		verifEvent("Schedule returns task error")
	}

	verifAssert(l.inflight == 0, "C01.no-task-running-when-schedule-returns")
	allRanOK := true
	someNotFinished := false
	for _, st := range l.stages {
		if !(st.runs == 1 && st.finished && (st.ok || (st.failed && st.allowFail))) {
			allRanOK = false
		}
		if !st.finished {
			someNotFinished = true
		}
		verifAssert(st.runs <= 1, "C02.task-runs-at-most-once")
	}
	if res == nil {
		verifReach("schedule.nil")
		// a plain success means every task ran to success or allowed failure (C02, C08 verdict)
		verifAssert(allRanOK, "C08.success-only-if-every-task-ran-ok")
		verifAssert(allRanOK, "C02.success-means-every-task-ran-once")
		if l.cancelDelivered && someNotFinished {
			verifAssert(false, "C04.canceled-run-never-a-plain-success")
		}
	} else {
		verifReach("schedule.error")
		if errors.Is(res, context.Canceled) {
			verifReach("schedule.canceled")
		}
	}
	if l.anyTaskError {
		verifAssert(res != nil, "C08.failure-makes-the-job-errored")
	}
	if mode == 1 {
		// an external cancel that cut a running task short is reported as a cancel (prunner derives the
		// job's Canceled flag from exactly this result), also when another task had failed before
		cutShort := false
		for _, st := range l.stages {
			if st.canceled {
				cutShort = true
			}
		}
		if cutShort {
			verifReach("cancel-cut-a-task-short")
			verifAssert(res != nil && errors.Is(res, context.Canceled), "C04.cancel-that-stopped-a-task-is-reported-as-canceled")
		}
	}
	if mode == 0 {
		// undisturbed: every task without a failed ancestor runs exactly once (continue mode of C08;
		// with all-success outcomes: every acyclic graph runs to completion, C02)
		for _, st := range l.stages {
			if !vHasFailedAncestor(l, st) {
				verifAssert(st.runs == 1 && st.finished, "C08.independent-tasks-run-to-completion")
			} else {
				verifAssert(st.runs == 0, "C08.dependents-of-a-failure-never-run")
				verifReach("dependent-skipped")
			}
		}
	}
	for _, st := range l.stages {
		if st.runs > 0 && !vHasFailedAncestor(l, st) {
			continue
		}
		if st.runs > 0 {
			verifAssert(false, "C08.dependents-of-a-failure-never-run")
		}
	}
	if mode == 1 {
		verifReach("mode.cancel")
		// wait for the canceller, then: nothing may start afterwards (checked at Run entry)
		verifBlockUntil(func() bool { return l.cancelReturned })
	}
	// no callback after return, and the status of every stage is final
	for _, node := range g.Nodes() {
		stt := node.ReadStatus()
		verifAssert(stt != scheduler.StatusRunning, "C08.no-task-reported-running-after-completion")
	}
	verifYield()
	verifAssert(l.callbacksAfter == 0, "C01.no-callback-after-schedule-returned")
	verifReach("end")
}
