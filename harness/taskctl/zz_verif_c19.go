package taskctl

// C19 (capture wiring): the writers handed to the shell interpreter for a task's commands are
// exactly the output-store writers opened for (job, task, "stdout") and (job, task, "stderr") -
// kept apart, the same pair for all commands of the task, closed on every path.
// What the OS does with bytes written to them (pipes, files, volume, concurrency) is outside.

import (
	"io"
	"time"

	"github.com/taskctl/taskctl/pkg/runner"
	"github.com/taskctl/taskctl/pkg/task"
	"github.com/taskctl/taskctl/pkg/variables"
	"mvdan.cc/sh/v3/interp"
)

type vRecWriter struct {
	job, task, stream string
	written           []byte
	closed            int
}

func (w *vRecWriter) Write(p []byte) (int, error) {
	w.written = append(w.written, p...)
	return len(p), nil
}
func (w *vRecWriter) Close() error { w.closed++; return nil }

type vRecStore struct {
	writers []*vRecWriter
	failAt  int
}

func (s *vRecStore) Writer(jobID, taskName, outputName string) (io.WriteCloser, error) {
	if s.failAt == len(s.writers)+1 {
		s.failAt = -1
		return nil, vRunIOErr
	}
	w := &vRecWriter{job: jobID, task: taskName, stream: outputName}
	s.writers = append(s.writers, w)
	return w, nil
}
func (s *vRecStore) Reader(jobID, taskName, outputName string) (io.ReadCloser, error) { return nil, nil }
func (s *vRecStore) Remove(jobID string) error                                            { return nil }

var vRunIOErr = vRunErr

type vStdIOCall struct{ out, err io.Writer }

var vStdIOs []vStdIOCall

func vStdIO(in io.Reader, out, err io.Writer) interp.RunnerOption {
	vStdIOs = append(vStdIOs, vStdIOCall{out, err})
	return func(r *interp.Runner) error { return nil }
}

// VerifC19Writers
func VerifC19Writers() {
	e := &vC18{processEnv: []string{"HOME=/root"}}
	vE = e
	vStdIOs = nil
	verifIntercept("os.Environ", vEnviron)
	verifIntercept("os.Getwd", func() (string, error) { return "/work", nil })
	verifIntercept("mvdan.cc/sh/v3/interp.New", vInterpNew)
	verifIntercept("mvdan.cc/sh/v3/interp.StdIO", vStdIO)
	verifIntercept("(*mvdan.cc/sh/v3/interp.Runner).Run", vInterpRun)
	verifIntercept("mvdan.cc/sh/v3/expand.ListEnviron", vListEnviron)
	verifIntercept("(*mvdan.cc/sh/v3/syntax.Parser).Parse", vParse)
	verifIntercept("github.com/taskctl/taskctl/pkg/utils.RenderString", vRender)

	st := &vRecStore{failAt: verifChoose("writer-open-fails-at", 3)} // 0 never, 1 stdout, 2 stderr
	taskName := verifString("task.name")
	r := &TaskRunner{compiler: runner.NewTaskCompiler(), variables: variables.NewVariables(), env: variables.NewVariables(), killTimeout: time.Second, outputStore: st}
	r.ctx = &vTaskCtx{}
	t := task.FromCommands("first command", "second command")
	t.Name = taskName
	t.Variables = variables.FromMap(map[string]string{JobIDVariableName: "job-7"})
	err := r.Run(t)

	for _, w := range st.writers {
		verifAssert(w.closed == 1, "C19.writers-closed-on-every-path")
		verifAssert(w.job == "job-7" && w.task == taskName, "C19.writers-opened-for-this-job-and-task")
	}
	if st.failAt == -1 {
		verifReach("open-failed")
		verifAssert(err != nil && e.runs == 0, "C19.no-command-runs-without-its-log-writers")
		return
	}
	verifReach("ran")
	verifAssert(err == nil && e.runs == 2, "C19.all-commands-of-the-task-run")
	verifAssert(len(st.writers) == 2, "C19.one-writer-per-stream")
	if len(st.writers) != 2 {
		return
	}
	verifAssert(st.writers[0].stream != st.writers[1].stream, "C19.streams-kept-apart")
	var wout, werr *vRecWriter
	for _, w := range st.writers {
		if w.stream == "stdout" {
			wout = w
		}
		if w.stream == "stderr" {
			werr = w
		}
	}
	verifAssert(wout != nil && werr != nil, "C19.one-writer-per-stream")
	verifAssert(len(vStdIOs) == 1, "C19.same-writer-pair-for-all-commands")
	if wout == nil || werr == nil || len(vStdIOs) != 1 {
		return
	}
	// probe: what the interpreter writes to its stdout/stderr arrives in the right store writer only
	_, _ = vStdIOs[0].out.Write([]byte("O"))
	_, _ = vStdIOs[0].err.Write([]byte("E"))
	verifAssert(string(wout.written) == "O" && string(werr.written) == "E", "C19.interpreter-output-goes-to-the-store-writer-of-its-stream")
}
