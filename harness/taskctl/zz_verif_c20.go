package taskctl

// C20: canceling a job leaves no process of its tasks behind.
// Contract-level: the real exec handler returned by createExecHandler runs (multi-threaded under the
// engine's scheduler) against a process-group model: Start creates a process group led by the child
// iff SysProcAttr.Setpgid; the group has the child and up to two descendants, each of which may
// ignore SIGINT and may exit on its own at any time; a signal to -pgid reaches every member, to +pid
// only the child; SIGKILL cannot be ignored. The context is canceled by another thread at an
// arbitrary point (or never); killTimeout is <= 0 or > 0.

import (
	"context"
	"os"
	"os/exec"
	"syscall"
	"time"

	"mvdan.cc/sh/v3/expand"
	"mvdan.cc/sh/v3/interp"
)

type vProc struct {
	name       string
	alive      bool
	ignoresINT bool
	killedBy   syscall.Signal
}

type vPG struct {
	started     bool
	setpgid     bool
	pid         int
	members     []*vProc // members[0] is the direct child
	sigintToGrp int
	sigkillTo   int
	strayKills  int
	childOnly   int
	exitCode    int
	waited      bool
	handlerRet  bool
	ctxCanceled bool
	canceledWhileAlive bool
	willCancel  bool
	state       *os.ProcessState
	cmd         *exec.Cmd
}

var vG *vPG

type vEnvNone struct{}

func (vEnvNone) Get(name string) expand.Variable                          { return expand.Variable{} }
func (vEnvNone) Each(f func(name string, vr expand.Variable) bool)        {}

func vHandlerCtx(ctx context.Context) interp.HandlerContext {
	return interp.HandlerContext{Env: vEnvNone{}, Dir: "/work"}
}

func vLookPathDir(cwd string, env expand.Environ, file string) (string, error) {
	return "/bin/" + file, nil
}

func vCmdStart(c *exec.Cmd) error {
	g := vG
	g.cmd = c
	if verifBound("startfails", 0) == 1 && verifChoose("start-fails", 2) == 1 {
		return &exec.Error{Name: c.Path, Err: os.ErrNotExist}
	}
	g.started = true
	g.setpgid = c.SysProcAttr != nil && c.SysProcAttr.Setpgid
	verifAssert(g.setpgid, "C20.command-gets-its-own-process-group")
	g.pid = 4242
	c.Process = &os.Process{Pid: g.pid}
	n := 1 + verifChoose("descendants", verifBound("descendants", 2)+1)
	names := []string{"child", "descendant-1", "descendant-2"}
	for i := 0; i < n; i++ {
		p := &vProc{name: names[i], alive: true, ignoresINT: verifChoose(names[i]+".ignores-SIGINT", 2) == 1}
		g.members = append(g.members, p)
		verifEvent("process " + p.name + " started")
	}
	// members may exit on their own at any time
	for _, p := range g.members {
		pp := p
		// "provided tasks terminate": without a cancel the command itself ends at some point
		if (pp == g.members[0] && !g.willCancel) || verifChoose(pp.name+".exits-by-itself", 2) == 1 {
			verifGo(func() {
				verifYield()
				if pp.alive {
					pp.alive = false
					verifEvent(pp.name + " exits by itself")
				}
			})
		}
	}
	return nil
}

func vKill(pid int, sig syscall.Signal) error {
	g := vG
	name := "SIGINT"
	if sig == syscall.SIGKILL {
		name = "SIGKILL"
	}
	switch {
	case pid == -g.pid && g.setpgid:
		verifEvent("kill(-pgid, " + name + ")")
		if sig == syscall.SIGKILL {
			g.sigkillTo++
		} else {
			g.sigintToGrp++
		}
		for _, p := range g.members {
			if p.alive && (sig == syscall.SIGKILL || !p.ignoresINT) {
				p.alive = false
				p.killedBy = sig
			}
		}
	case pid == g.pid || (pid == -g.pid && !g.setpgid):
		verifEvent("kill(pid, " + name + ")")
		g.childOnly++
		p := g.members[0]
		if p.alive && (sig == syscall.SIGKILL || !p.ignoresINT) {
			p.alive = false
			p.killedBy = sig
		}
	default:
		g.strayKills++
		verifEvent("kill of a foreign pid")
	}
	return nil
}

func vCmdWait(c *exec.Cmd) error {
	g := vG
	verifBlockUntil(func() bool { return !g.members[0].alive })
	g.waited = true
	verifEvent("Wait returns")
	g.state = &os.ProcessState{}
	if g.members[0].killedBy != 0 {
		return &exec.ExitError{ProcessState: g.state}
	}
	if verifChoose("exit-code", 2) == 1 {
		g.exitCode = 3
		return &exec.ExitError{ProcessState: g.state}
	}
	return nil
}

func vProcessStateSys(p *os.ProcessState) interface{} {
	g := vG
	if g.members[0].killedBy != 0 {
		return syscall.WaitStatus(uint32(g.members[0].killedBy)) // signaled: low 7 bits = signal
	}
	return syscall.WaitStatus(uint32(g.exitCode) << 8)
}

type vDoneCtx struct {
	done chan struct{}
	err  error
}

func (c *vDoneCtx) Deadline() (time.Time, bool)       { return time.Time{}, false }
func (c *vDoneCtx) Done() <-chan struct{}             { return c.done }
func (c *vDoneCtx) Err() error                        { return c.err }
func (c *vDoneCtx) Value(key interface{}) interface{} { return nil }

// VerifC20Exec
func VerifC20Exec() {
	verifGoMode(1)
	g := &vPG{}
	vG = g
	verifIntercept("mvdan.cc/sh/v3/interp.HandlerCtx", vHandlerCtx)
	verifIntercept("mvdan.cc/sh/v3/interp.LookPathDir", vLookPathDir)
	verifIntercept("(*os/exec.Cmd).Start", vCmdStart)
	verifIntercept("(*os/exec.Cmd).Wait", vCmdWait)
	verifIntercept("syscall.Kill", vKill)
	verifIntercept("(*os.ProcessState).Sys", vProcessStateSys)
	verifIntercept("time.Sleep", func(d time.Duration) { verifYield() }) // the kill timeout elapses at some later point

	killTimeout := time.Duration(verifInt64("kill_timeout"))
	h := createExecHandler(killTimeout)
	ctx := &vDoneCtx{done: make(chan struct{})}
	cancels := verifChoose("context-canceled", 2) == 1
	g.willCancel = cancels
	if cancels {
		verifGo(func() {
			verifYield()
			if g.started && g.members[0].alive {
				g.canceledWhileAlive = true
			}
			g.ctxCanceled = true
			ctx.err = context.Canceled
			verifEvent("context canceled")
			close(ctx.done)
		})
	}
	err := h(ctx, []string{"sleep", "60"})
	g.handlerRet = true
	verifEvent("handler returns")

	if g.started {
		verifAssert(g.waited && !g.members[0].alive, "C20.handler-returns-only-after-the-command-exited")
	}
	// let every remaining activity (kill goroutines, the canceller) finish; without a cancel the
	// watcher goroutine of the handler stays parked on ctx.Done() (a leak, not a property violation)
	if cancels {
		verifBlockUntil(func() bool { return verifThreadsAlive() == 0 })
	}
	verifAssert(g.strayKills == 0, "C20.signals-only-to-this-commands-group")
	verifAssert(g.childOnly == 0, "C20.signals-go-to-the-whole-group")
	if g.started && g.canceledWhileAlive {
		verifReach("canceled-while-running")
		allDead := true
		for _, p := range g.members {
			if p.alive {
				allDead = false
			}
		}
		// escalation is required as long as somebody of the group is still alive; skipping a signal
		// to a group that is entirely gone is not a violation
		if killTimeout <= 0 {
			verifAssert(g.sigkillTo >= 1 || allDead, "C20.no-timeout-kills-immediately")
		} else {
			verifAssert(g.sigintToGrp >= 1 || allDead, "C20.group-is-interrupted-on-cancel")
			verifAssert(g.sigkillTo >= 1 || allDead, "C20.group-is-killed-after-the-kill-timeout")
		}
		for _, p := range g.members {
			verifAssert(!p.alive, "C20.no-process-left-behind")
			if p.ignoresINT && p.killedBy == syscall.SIGKILL {
				verifReach("interrupt-ignoring-process-killed")
			}
		}
		if g.members[0].killedBy != 0 {
			verifAssert(err != nil, "C20.canceled-command-reports-an-error")
		}
	}
	if g.started && !g.ctxCanceled && g.members[0].killedBy == 0 {
		verifReach("ran-to-its-natural-end")
		verifAssert(g.sigintToGrp == 0 && g.sigkillTo == 0, "C20.no-signal-without-cancel")
		if g.exitCode == 0 {
			verifAssert(err == nil, "C20.exit-status-0-is-success")
		} else {
			verifAssert(err != nil, "C20.non-zero-exit-status-is-an-error")
		}
	}
	if len(g.members) >= 2 {
		verifReach("with-descendants")
	}
}

// VerifC20Cancel: TaskRunner.Cancel cancels the context exactly once and returns only when no Run is
// in flight.
func VerifC20Cancel() {
	verifGoMode(1)
	r := &TaskRunner{}
	ctx := &vDoneCtx{done: make(chan struct{})}
	cancelCalls := 0
	r.ctx = ctx
	r.cancelFunc = func() {
		cancelCalls++
		ctx.err = context.Canceled
		close(ctx.done)
	}
	inflight := 0
	nRuns := 1 + verifChoose("runs", 2)
	for i := 0; i < nRuns; i++ {
		verifGo(func() {
			// what Run does around the actual execution
			r.wg.Add(1)
			if ctx.Err() != nil {
				r.wg.Done()
				return
			}
			inflight++
			<-ctx.Done() // the command ends once the context is canceled
			verifYield()
			inflight--
			r.wg.Done()
		})
	}
	verifYield()
	nCancels := 1 + verifChoose("cancels", 2)
	returned := 0
	for i := 0; i < nCancels; i++ {
		verifGo(func() {
			r.Cancel()
			verifAssert(inflight == 0, "C20.cancel-returns-only-when-no-task-run-is-in-flight")
			returned++
		})
	}
	verifBlockUntil(func() bool { return returned == nCancels })
	verifAssert(cancelCalls == 1, "C20.context-canceled-exactly-once")
	verifReach("end")
}
