package taskctl

// C19 (attribution): distinct (job, task, stream) triples are stored in distinct files, each inside
// its own job's directory - FileOutputStore.buildPath with path.Join/path.Clean executed from their
// real SSA on task names that are byte sequences of symbolic bytes (length <= bound, every byte
// arbitrary). Only names the definition loader accepts are considered (the real validation runs on
// the symbolic name first and is assumed to pass).

import (
	"strconv"

	"github.com/Flowpack/prunner/definition"
)

func vSymName(prefix string, maxLen int) string {
	n := verifChoose(prefix+".len", maxLen+1)
	b := make([]byte, n)
	for i := range b {
		b[i] = verifByte(prefix + "." + strconv.Itoa(i))
	}
	return string(b)
}

func vStream(name string) string {
	if verifChoose(name, 2) == 1 {
		return "stderr"
	}
	return "stdout"
}

// vLoadable: the pipeline definition with one task of that name passes the loader's validation.
func vLoadable(taskName string) bool {
	defs := &definition.PipelinesDef{Pipelines: map[string]definition.PipelineDef{
		"p": {Concurrency: 1, Tasks: map[string]definition.TaskDef{taskName: {Script: []string{"true"}}}},
	}}
	return defs.Validate() == nil
}

// VerifC19Paths
func VerifC19Paths() {
	s := &FileOutputStore{path: "/data/logs"}
	j1, j2 := "0b5a7c3e-job-1", "0b5a7c3e-job-1"
	if verifChoose("same-job", 2) == 0 {
		j2 = "7f3e9d1a-job-2"
	}
	t1 := vSymName("task1", int(verifBound("len1", 2)))
	t2 := vSymName("task2", int(verifBound("len2", 6)))
	if !vLoadable(t1) || !vLoadable(t2) {
		verifReach("name-refused-by-the-loader")
		return
	}
	o1, o2 := vStream("stream1"), vStream("stream2")
	p1 := s.buildPath(j1, t1, o1)
	p2 := s.buildPath(j2, t2, o2)
	same := verifAnd(j1 == j2, verifAnd(t1 == t2, o1 == o2))
	verifAssert(verifOr(same, p1 != p2), "C19.distinct-job-task-stream-have-distinct-files")
	pre1, pre2 := "/data/logs/"+j1+"/", "/data/logs/"+j2+"/"
	verifAssert(len(p1) > len(pre1) && p1[:len(pre1)] == pre1, "C19.file-lies-in-its-jobs-directory")
	verifAssert(len(p2) > len(pre2) && p2[:len(pre2)] == pre2, "C19.file-lies-in-its-jobs-directory")
	if len(t2) >= 3 {
		verifReach("long-name")
	}
	verifReach("end")
}

// entries that can be replayed natively (go test with the solver's model as input)
var verifEntries = map[string]func(){"VerifC19Paths": VerifC19Paths}
