package taskctl

// C08 (task runner level): allow_failure and exit statuses in the real TaskRunner.execute.
// The shell interpreter is a stub that ends the first command with a symbolic exit status (or
// success); allow_failure is a choice. A tolerated failure must not mark the task errored, must not
// stop the remaining commands and must not make Run fail; a non-tolerated one must.

import (
	"context"
	"time"

	"github.com/taskctl/taskctl/pkg/runner"
	"github.com/taskctl/taskctl/pkg/task"
	"github.com/taskctl/taskctl/pkg/variables"
	"mvdan.cc/sh/v3/interp"
	"mvdan.cc/sh/v3/syntax"
)

var vExitFirst error

func vInterpRunExit(r *interp.Runner, ctx context.Context, node syntax.Node) error {
	vE.runs++
	if vE.runs == 1 {
		return vExitFirst
	}
	return nil
}

// VerifC08Execute
func VerifC08Execute() {
	e := &vC18{processEnv: []string{"HOME=/root"}}
	vE = e
	verifIntercept("os.Environ", vEnviron)
	verifIntercept("os.Getwd", func() (string, error) { return "/work", nil })
	verifIntercept("mvdan.cc/sh/v3/interp.New", vInterpNew)
	verifIntercept("(*mvdan.cc/sh/v3/interp.Runner).Run", vInterpRunExit)
	verifIntercept("mvdan.cc/sh/v3/expand.ListEnviron", vListEnviron)
	verifIntercept("(*mvdan.cc/sh/v3/syntax.Parser).Parse", vParse)
	verifIntercept("github.com/taskctl/taskctl/pkg/utils.RenderString", vRender)

	status := verifByte("exit.status")
	fails := verifChoose("first-command-fails", 2) == 1
	vExitFirst = nil
	if fails {
		verifAssume(status != 0)
		vExitFirst = interp.NewExitStatus(status)
	}
	allow := verifChoose("allow_failure", 2) == 1

	r := &TaskRunner{compiler: runner.NewTaskCompiler(), variables: variables.NewVariables(), env: variables.NewVariables(), killTimeout: time.Second}
	r.ctx = &vTaskCtx{}
	var reports []bool // Errored flag at each task-change report
	r.SetOnTaskChange(func(t *task.Task) { reports = append(reports, t.Errored) })
	t := task.FromCommands("first command", "second command")
	t.Name = "build"
	t.AllowFailure = allow
	t.Variables = variables.FromMap(map[string]string{JobIDVariableName: "job-9"})
	err := r.Run(t)

	switch {
	case !fails:
		verifReach("success")
		verifAssert(err == nil && !t.Errored && e.runs == 2 && t.ExitCode == 0, "C08.successful-task-reported-ok")
	case allow:
		verifReach("allowed-failure")
		verifAssert(err == nil, "C08.allowed-failure-does-not-fail-the-task-run")
		verifAssert(!t.Errored && t.Error == nil, "C08.allowed-failure-does-not-mark-the-task-errored")
		verifAssert(e.runs == 2, "C08.allowed-failure-does-not-stop-the-remaining-commands")
		for _, er := range reports {
			verifAssert(!er, "C08.allowed-failure-never-reported-as-errored")
		}
		if status > 128 {
			verifReach("allowed-failure.status>128")
		}
	default:
		verifReach("failure")
		verifAssert(err != nil && t.Errored && t.Error != nil, "C08.failure-marks-the-task-errored")
		verifAssert(e.runs == 1, "C08.failure-stops-the-remaining-commands")
		verifAssert(t.ExitCode == int16(status), "C08.exit-status-reported")
	}
	verifAssert(!t.End.IsZero() == (err == nil), "C08.end-time-only-for-finished-tasks")
}
