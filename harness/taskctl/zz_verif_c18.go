package taskctl

// C18: environment and job variables reach exactly the right task commands.
// Contract-level: the real TaskRunner.Run -> upstream TaskCompiler.CompileTask/CompileCommand ->
// PgidExecutor.Execute chain is executed with symbolic names and values at the three environment
// levels; what is checked is what is handed over at the exec boundary (the list given to
// expand.ListEnviron, the variables given to the template renderer, the command text). What the
// shell interpreter and exec do with them is outside.

import (
	"context"
	"strings"
	"time"

	"github.com/taskctl/taskctl/pkg/scheduler"
	"github.com/taskctl/taskctl/pkg/task"
	"github.com/taskctl/taskctl/pkg/variables"
	"mvdan.cc/sh/v3/expand"
	"mvdan.cc/sh/v3/interp"
	"mvdan.cc/sh/v3/syntax"
)

type vExecCall struct {
	env     []string
	command string
	vars    map[string]interface{}
}

type vC18 struct {
	processEnv []string
	envLists   [][]string
	renders    []vExecCall
	runs       int
}

var vE *vC18

type vTaskCtx struct{ err error }

func (c *vTaskCtx) Deadline() (time.Time, bool)       { return time.Time{}, false }
func (c *vTaskCtx) Done() <-chan struct{}             { return nil }
func (c *vTaskCtx) Err() error                        { return c.err }
func (c *vTaskCtx) Value(key interface{}) interface{} { return nil }

func vEnviron() []string { return append([]string{}, vE.processEnv...) }

func vInterpNew(opts ...interp.RunnerOption) (*interp.Runner, error) { return &interp.Runner{}, nil }

func vInterpRun(r *interp.Runner, ctx context.Context, node syntax.Node) error {
	vE.runs++
	return nil
}

func vListEnviron(pairs ...string) expand.Environ {
	vE.envLists = append(vE.envLists, append([]string{}, pairs...))
	return nil
}

func vParse(p *syntax.Parser, r interface{}, name string) (*syntax.File, error) { return nil, nil }

func vRender(tmpl string, vars map[string]interface{}) (string, error) {
	vE.renders = append(vE.renders, vExecCall{command: tmpl, vars: vars})
	return tmpl, nil // contract: identity on strings without template actions
}

// VerifC18Env
func VerifC18Env() {
	e := &vC18{}
	vE = e
	verifIntercept("os.Environ", vEnviron)
	verifIntercept("os.Getwd", func() (string, error) { return "/work", nil })
	verifIntercept("mvdan.cc/sh/v3/interp.New", vInterpNew)
	verifIntercept("(*mvdan.cc/sh/v3/interp.Runner).Run", vInterpRun)
	verifIntercept("mvdan.cc/sh/v3/expand.ListEnviron", vListEnviron)
	verifIntercept("(*mvdan.cc/sh/v3/syntax.Parser).Parse", vParse)
	verifIntercept("github.com/taskctl/taskctl/pkg/utils.RenderString", vRender)

	// one symbolic name, possibly defined at each of the three levels, with symbolic values
	name := verifString("env.name")
	verifAssume(!strings.Contains(name, "="))
	verifAssume(name != "TASK_NAME" && name != "HOME" && name != "PIPELINE_ONLY")
	vp, vq, vt := verifString("value.process"), verifString("value.pipeline"), verifString("value.task")
	inProcess := verifChoose("defined.in-process", 2) == 1
	inPipeline := verifChoose("defined.in-pipeline", 2) == 1
	inTask := verifChoose("defined.in-task", 2) == 1

	e.processEnv = []string{"HOME=/root"}
	if inProcess {
		e.processEnv = append(e.processEnv, name+"="+vp)
	}
	pipelineEnv := map[string]string{"PIPELINE_ONLY": "p"}
	if inPipeline {
		pipelineEnv[name] = vq
	}
	taskEnv := map[string]string{}
	if inTask {
		taskEnv[name] = vt
	}
	taskName := verifString("task.name")
	userVar := verifString("variable.value")

	// the task runner is built the way app.go builds it for a job
	r, nerr := NewTaskRunner(nil, WithEnv(variables.FromMap(pipelineEnv)), WithKillTimeout(2*time.Second))
	if nerr != nil || r == nil {
		verifUnsupported("NewTaskRunner failed")
		return
	}
	changes := 0
	r.SetOnTaskChange(func(t *task.Task) { changes++ })

	t := task.FromCommands("first command", "second command")
	t.Name = taskName
	t.Env = variables.FromMap(taskEnv)
	t.Variables = variables.FromMap(map[string]string{JobIDVariableName: "job-1", "tag": userVar})

	err := r.Run(t)
	verifAssert(err == nil, "C18.run-succeeds")
	verifAssert(e.runs == 2 && len(e.envLists) == 2, "C18.every-command-executed-with-an-environment")
	verifAssert(changes >= 2, "C18.task-changes-reported")

	want, has := "", false
	if inTask {
		want, has = vt, true
	} else if inPipeline {
		want, has = vq, true
	} else if inProcess {
		want, has = vp, true
	}
	for _, list := range e.envLists {
		// the interpreter's environment: for a name given several times the LAST entry wins
		last := -1
		lastTask := -1
		for i, kv := range list {
			if strings.HasPrefix(kv, name+"=") {
				last = i
			}
			if strings.HasPrefix(kv, "TASK_NAME=") {
				lastTask = i
			}
		}
		if has {
			verifReach("defined-somewhere")
			verifAssert(last >= 0, "C18.defined-variable-reaches-the-command")
			if last >= 0 {
				verifAssert(list[last] == name+"="+want, "C18.task-over-pipeline-over-process")
			}
		} else {
			verifAssert(last < 0, "C18.undefined-variable-not-invented")
		}
		verifAssert(lastTask >= 0 && list[lastTask] == "TASK_NAME="+taskName, "C18.TASK_NAME-is-the-task-name")
		home := false
		for _, kv := range list {
			if kv == "HOME=/root" {
				home = true
			}
		}
		verifAssert(home, "C18.process-environment-inherited")
	}
	// the command template is rendered with exactly this job's variables
	cmds := 0
	for _, rc := range e.renders {
		if verifIsSymbolic(rc.command) || (rc.command != "first command" && rc.command != "second command") {
			continue // renderings of variable values and directories
		}
		cmds++
		id, _ := rc.vars[JobIDVariableName].(string)
		verifAssert(id == "job-1", "C18.job-identity-reaches-the-command")
		tag, ok := rc.vars["tag"].(string)
		verifAssert(ok && tag == userVar, "C18.job-variables-reach-the-command-unchanged")
	}
	verifAssert(cmds == 2, "C18.every-command-rendered-with-job-variables")
	if inProcess && inPipeline && inTask {
		verifReach("all-three-levels")
	}
}

type vCaptureRunner struct{ got *task.Task }

func (m *vCaptureRunner) SetOnTaskChange(f func(t *task.Task)) {}
func (m *vCaptureRunner) Run(t *task.Task) error               { m.got = t; return nil }
func (m *vCaptureRunner) Cancel()                              {}
func (m *vCaptureRunner) Finish()                              {}

// VerifC18Stage: the hand-over from the scheduler to the task runner (Scheduler.runStage): the
// variables the task is run with are the job's variables - a task-level environment entry of the same
// name (symbolic), or one named like the reserved job id variable, never replaces them.
func VerifC18Stage() {
	name := verifString("variable.name")
	verifAssume(name != JobIDVariableName)
	jobValue, envValue, forged := verifString("variable.job-value"), verifString("variable.task-env-value"), verifString("task-env.__jobID")
	taskEnv := map[string]string{}
	if verifChoose("task-env-defines-the-same-name", 2) == 1 {
		taskEnv[name] = envValue
		verifReach("name-collision")
	}
	if verifChoose("task-env-defines-the-job-id-name", 2) == 1 {
		taskEnv[JobIDVariableName] = forged
		verifReach("job-id-collision")
	}
	t := task.FromCommands("echo")
	t.Name = "a"
	t.Env = variables.FromMap(taskEnv)
	stage := &scheduler.Stage{Name: "a", Task: t,
		Variables: variables.FromMap(map[string]string{name: jobValue, JobIDVariableName: "job-1"})}
	cr := &vCaptureRunner{}
	s := NewScheduler(cr)
	err := s.runStage(stage)
	verifAssert(err == nil && cr.got != nil, "C18.stage-reaches-the-runner")
	if cr.got == nil {
		return
	}
	got, _ := cr.got.Variables.Get(name).(string)
	verifAssert(cr.got.Variables.Has(name) && got == jobValue, "C18.job-variables-reach-the-command-unchanged")
	id, _ := cr.got.Variables.Get(JobIDVariableName).(string)
	verifAssert(id == "job-1", "C18.job-identity-reaches-the-command")
	verifReach("end")
}
