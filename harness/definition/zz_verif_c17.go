package definition

// C17: only valid definitions load, deterministically, and every edit is detected.
// All strings (task names, dependency names, env keys/values, script lines, pipeline names) are
// symbolic; shapes (nil-ness, lengths, map sizes) are case-split by verifArbitrary within bounds.

import (
	"os"

	"gopkg.in/yaml.v2"
)

func vValidRef(d PipelineDef) bool {
	if d.Concurrency < 1 {
		return false
	}
	if d.QueueLimit != nil && *d.QueueLimit < 0 {
		return false
	}
	if d.StartDelay < 0 {
		return false
	}
	if d.StartDelay > 0 && d.QueueLimit != nil && *d.QueueLimit == 0 {
		return false
	}
	for _, t := range d.Tasks {
		for _, dep := range t.DependsOn {
			if _, ok := d.Tasks[dep]; !ok {
				return false
			}
		}
	}
	return true
}

// VerifC17Validate: setDefaults + validate accept exactly the valid definitions.
func VerifC17Validate() {
	var d PipelineDef
	verifArbitrary("d", &d)
	orig := d.Concurrency
	defs := &PipelinesDef{Pipelines: map[string]PipelineDef{"p": d}}
	defs.setDefaults()
	d2 := defs.Pipelines["p"]
	if orig == 0 {
		verifReach("default-applied")
		verifAssert(d2.Concurrency == 1, "C17.concurrency-defaults-to-1")
	} else {
		verifAssert(d2.Concurrency == orig, "C17.defaults-keep-explicit-concurrency")
	}
	err := d2.validate()
	valid := vValidRef(d2)
	if err == nil {
		verifReach("accepted")
		verifAssert(valid, "C17.accepted-definition-is-valid")
		verifAssert(d2.Concurrency >= 1, "C17.valid.concurrency>=1")
		verifAssert(d2.QueueLimit == nil || *d2.QueueLimit >= 0, "C17.valid.queue_limit>=0")
		verifAssert(d2.StartDelay >= 0, "C17.valid.start_delay>=0")
		verifAssert(!(d2.StartDelay > 0 && d2.QueueLimit != nil && *d2.QueueLimit == 0), "C17.valid.delay-needs-queue")
	} else {
		verifReach("rejected")
		verifAssert(!valid, "C17.valid-definition-is-accepted")
	}
	// the exported validator agrees
	verr := defs.Validate()
	verifAssert((verr == nil) == (err == nil), "C17.Validate-agrees-with-validate")
}

// VerifC17Strategy: only the two documented strategy names are accepted.
func VerifC17Strategy() {
	name := verifString("strategy")
	var s QueueStrategy = 7
	err := s.UnmarshalYAML(func(v interface{}) error {
		*(v.(*string)) = name
		return nil
	})
	if name == "append" {
		verifReach("append")
		verifAssert(err == nil && s == QueueStrategyAppend, "C17.strategy.append")
	} else if name == "replace" {
		verifReach("replace")
		verifAssert(err == nil && s == QueueStrategyReplace, "C17.strategy.replace")
	} else {
		verifReach("unknown")
		verifAssert(err != nil, "C17.strategy.unknown-rejected")
	}
}

// VerifC17EqualsTask: TaskDef.Equals is structural equality.
func VerifC17EqualsTask() {
	var a, b TaskDef
	verifArbitrary("a", &a)
	verifArbitrary("b", &b)
	eq := a.Equals(b)
	same := verifDeepEqual(a, b)
	if same {
		verifReach("same")
	} else {
		verifReach("different")
	}
	verifAssert(eq == same, "C17.equals.task-iff-same-configuration")
	verifAssert(a.Equals(a), "C17.equals.task-reflexive")
	verifAssert(b.Equals(a) == eq, "C17.equals.task-symmetric")
}

// VerifC17EqualsPipeline: PipelineDef.Equals is structural equality (every field, found by type).
func VerifC17EqualsPipeline() {
	var a, b PipelineDef
	verifArbitrary("a", &a)
	verifArbitrary("b", &b)
	eq := a.Equals(b)
	same := verifDeepEqual(a, b)
	if same {
		verifReach("same")
	} else {
		verifReach("different")
	}
	verifAssert(eq == same, "C17.equals.pipeline-iff-same-configuration")
	verifAssert(b.Equals(a) == eq, "C17.equals.pipeline-symmetric")
}

func vScalarDef(tag string) PipelineDef {
	return PipelineDef{Concurrency: verifInt(tag + ".concurrency"), RetentionCount: verifInt(tag + ".retention_count"), SourcePath: verifString(tag + ".source")}
}

// VerifC17EqualsSet: PipelinesDef.Equals over sets of up to 2 pipelines with symbolic names.
func VerifC17EqualsSet() {
	mk := func(tag string) PipelinesDef {
		n := verifChoose(tag+"#pipelines", 3)
		m := map[string]PipelineDef{}
		var names []string
		for i := 0; i < n; i++ {
			name := verifString(tag + ".name")
			for _, o := range names {
				verifAssume(o != name)
			}
			names = append(names, name)
			m[name] = vScalarDef(tag)
		}
		return PipelinesDef{Pipelines: m}
	}
	a, b := mk("a"), mk("b")
	eq := a.Equals(b)
	same := verifDeepEqual(a, b)
	if same && len(a.Pipelines) == 2 {
		verifReach("same-2")
	}
	verifAssert(eq == same, "C17.equals.set-iff-same-configuration")
}

// ---- loading ----

var vFiles map[string]*PipelinesDef
var vCurrentPath string
var vGlobOrder []string

func vOpen(path string) (*os.File, error) {
	vCurrentPath = path
	if _, ok := vFiles[path]; !ok {
		return nil, os.ErrNotExist
	}
	return nil, nil
}

func vNewDecoder(r interface{}) *yaml.Decoder { return nil }

func vDecode(dec *yaml.Decoder, v interface{}) error {
	p := v.(*PipelinesDef)
	*p = *(verifClone(vFiles[vCurrentPath]).(*PipelinesDef))
	return nil
}

func vGlob(pattern string) ([]string, error) {
	return append([]string{}, vGlobOrder...), nil
}

func vFileDef(tag string) *PipelinesDef {
	// zero or one pipeline per file, symbolic name, arbitrary scalar settings, one task with one dependency name
	d := &PipelinesDef{Pipelines: map[string]PipelineDef{}}
	if verifChoose(tag+"#pipelines", 2) == 1 {
		name := verifString(tag + ".name")
		pd := PipelineDef{Concurrency: verifInt(tag + ".concurrency"), StartDelay: 0}
		if verifChoose(tag+"?limit", 2) == 1 {
			l := verifInt(tag + ".queue_limit")
			pd.QueueLimit = &l
		}
		if verifChoose(tag+"?task", 2) == 1 {
			pd.Tasks = map[string]TaskDef{"t": {Script: []string{"x"}, DependsOn: []string{verifString(tag + ".dep")}}}
		}
		d.Pipelines[name] = pd
	}
	return d
}

// VerifC17Load: merging files - duplicates rejected, every entry validated, result independent of
// the order in which the glob enumerates the files (2-safety: both orders in one path).
func VerifC17Load() {
	verifIntercept("os.Open", vOpen)
	verifIntercept("(*os.File).Close", func(f *os.File) error { return nil })
	verifIntercept("gopkg.in/yaml.v2.NewDecoder", vNewDecoder)
	verifIntercept("(*gopkg.in/yaml.v2.Decoder).Decode", vDecode)
	verifIntercept("github.com/mattn/go-zglob.GlobFollowSymlinks", vGlob)
	fa, fb := vFileDef("fileA"), vFileDef("fileB")
	vFiles = map[string]*PipelinesDef{"a.yml": fa, "b.yml": fb}

	vGlobOrder = []string{"a.yml", "b.yml"}
	r1, e1 := LoadRecursively("**/pipelines.yml")
	vGlobOrder = []string{"b.yml", "a.yml"}
	r2, e2 := LoadRecursively("**/pipelines.yml")

	verifAssert((e1 == nil) == (e2 == nil), "C17.load.order-independent-outcome")
	dup := false
	for na := range fa.Pipelines {
		for nb := range fb.Pipelines {
			if na == nb {
				dup = true
			}
		}
	}
	if dup {
		verifReach("duplicate")
		verifAssert(e1 != nil, "C17.load.duplicate-name-rejected")
	}
	if e1 == nil && e2 == nil {
		verifReach("loaded")
		verifAssert(verifDeepEqual(r1, r2), "C17.load.order-independent-result")
		verifAssert(len(r1.Pipelines) == len(fa.Pipelines)+len(fb.Pipelines), "C17.load.union-of-files")
		for name, pd := range r1.Pipelines {
			verifAssert(vValidRef(pd), "C17.load.every-pipeline-valid")
			_, inA := fa.Pipelines[name]
			if inA {
				verifAssert(pd.SourcePath == "a.yml", "C17.load.source-path")
			} else {
				verifAssert(pd.SourcePath == "b.yml", "C17.load.source-path")
			}
		}
	} else if !dup {
		// an error without duplicate means some pipeline is invalid
		anyInvalid := false
		for _, f := range []*PipelinesDef{fa, fb} {
			for _, pd := range f.Pipelines {
				c := pd
				if c.Concurrency == 0 {
					c.Concurrency = 1
				}
				if !vValidRef(c) {
					anyInvalid = true
				}
			}
		}
		verifReach("invalid-file")
		verifAssert(anyInvalid, "C17.load.valid-set-loads")
	}
}

var verifEntries = map[string]func(){
	"VerifC17Validate":       VerifC17Validate,
	"VerifC17Strategy":       VerifC17Strategy,
	"VerifC17EqualsTask":     VerifC17EqualsTask,
	"VerifC17EqualsPipeline": VerifC17EqualsPipeline,
	"VerifC17EqualsSet":      VerifC17EqualsSet,
}
