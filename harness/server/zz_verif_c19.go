package server

// C19 (log API part): what GET /job/logs returns is exactly what the output store holds for that
// job, task and stream (streams kept apart), and a request for a task the job does not have - or
// for an unknown / malformed job id - is refused without touching the store.
// The real jobLogs handler and the real PipelineRunner run; HTTP plumbing (query parsing, JSON
// encoding of the response) is stubbed.

import (
	"context"
	"io"
	"net/http"
	"net/url"
	"strings"

	"github.com/gofrs/uuid"
	jsoniter "github.com/json-iterator/go"
	"github.com/taskctl/taskctl/pkg/task"

	"github.com/Flowpack/prunner"
	"github.com/Flowpack/prunner/definition"
	"github.com/Flowpack/prunner/taskctl"
)

type vLogReader struct {
	data []byte
	pos  int
	open bool
}

func (r *vLogReader) Read(p []byte) (int, error) {
	if r.pos >= len(r.data) {
		return 0, io.EOF
	}
	n := copy(p, r.data[r.pos:])
	r.pos += n
	return n, nil
}
func (r *vLogReader) Close() error { r.open = false; return nil }

type vReadCall struct{ job, task, stream string }

type vLogStore struct {
	reads   []vReadCall
	readers []*vLogReader
}

func (s *vLogStore) Writer(jobID, taskName, outputName string) (io.WriteCloser, error) { return nil, nil }
func (s *vLogStore) Remove(jobID string) error                                            { return nil }
func (s *vLogStore) Reader(jobID, taskName, outputName string) (io.ReadCloser, error) {
	s.reads = append(s.reads, vReadCall{jobID, taskName, outputName})
	// concrete marker per (stream, call); which (job, task, stream) it stands for is in s.reads
	content := "OUT#" + string(rune('0'+len(s.reads)))
	if outputName == "stderr" {
		content = "ERR#" + string(rune('0'+len(s.reads)))
	}
	r := &vLogReader{data: []byte(content), open: true}
	s.readers = append(s.readers, r)
	return r, nil
}

type vRespWriter struct {
	header http.Header
	status int
}

func (w *vRespWriter) Header() http.Header         { return w.header }
func (w *vRespWriter) Write(b []byte) (int, error) { return len(b), nil }
func (w *vRespWriter) WriteHeader(code int) {
	if w.status == 0 {
		w.status = code
	}
}

type vSrvRunner struct{}

func (m *vSrvRunner) SetOnTaskChange(f func(t *task.Task)) {}
func (m *vSrvRunner) Run(t *task.Task) error               { return nil }
func (m *vSrvRunner) Cancel()                              {}
func (m *vSrvRunner) Finish()                              {}

type vJSONAPI struct{ jsoniter.API }

var vEncoded []interface{}

func (a vJSONAPI) NewEncoder(w io.Writer) *jsoniter.Encoder { return &jsoniter.Encoder{} }

func vEncode(e *jsoniter.Encoder, val interface{}) error {
	vEncoded = append(vEncoded, val)
	return nil
}

var vQuery url.Values

func vURLQuery(u *url.URL) url.Values { return vQuery }

var vUUIDn int

func vSrvNewV4() (uuid.UUID, error) {
	vUUIDn++
	var u uuid.UUID
	u[0] = 0xC0
	u[15] = byte(vUUIDn)
	return u, nil
}

// VerifC19Logs
func VerifC19Logs() {
	verifIntercept("github.com/gofrs/uuid.NewV4", vSrvNewV4)
	verifIntercept("(*net/url.URL).Query", vURLQuery)
	verifIntercept("(*github.com/json-iterator/go.Encoder).Encode", vEncode)
	json = vJSONAPI{}
	defs := &definition.PipelinesDef{Pipelines: map[string]definition.PipelineDef{
		"p": {Concurrency: 2, Tasks: map[string]definition.TaskDef{"build": {Script: []string{"x"}}, "test": {Script: []string{"y"}, DependsOn: []string{"build"}}}},
		"q": {Concurrency: 1, Tasks: map[string]definition.TaskDef{"deploy": {Script: []string{"z"}}}},
	}}
	r, err := prunner.NewPipelineRunner(context.Background(), defs, func(j *prunner.PipelineJob) taskctl.Runner { return &vSrvRunner{} }, nil, nil)
	if err != nil {
		verifUnsupported("NewPipelineRunner failed")
		return
	}
	j1, e1 := r.ScheduleAsync("p", prunner.ScheduleOpts{})
	j2, e2 := r.ScheduleAsync("q", prunner.ScheduleOpts{})
	if e1 != nil || e2 != nil {
		verifUnsupported("scheduling failed")
		return
	}
	st := &vLogStore{}
	srv := &server{pRunner: r, outputStore: st}

	// request: one of {job 1, job 2, an unknown id, a malformed id} x a symbolic task name
	ids := []string{j1.ID.String(), j2.ID.String(), "c0000000-0000-0000-0000-0000000000ff", "not-a-uuid"}
	which := verifChoose("request.id", len(ids))
	taskName := verifString("request.task")
	// the id may be spelled in any form the UUID parser accepts; the logs are stored under the
	// canonical form (what the task runner's JOB ID variable carries)
	canonical := ids[which]
	spelled := canonical
	if which <= 1 {
		switch verifChoose("request.id-spelling", 4) {
		case 1:
			spelled = strings.ToUpper(canonical)
			verifReach("non-canonical-id")
		case 2:
			spelled = "{" + canonical + "}"
		case 3:
			spelled = "urn:uuid:" + canonical
		}
	}
	vQuery = url.Values{"id": []string{spelled}, "task": []string{taskName}}
	w := &vRespWriter{header: http.Header{}}
	srv.jobLogs(w, &http.Request{URL: &url.URL{}})

	belongs := (which == 0 && (taskName == "build" || taskName == "test")) || (which == 1 && taskName == "deploy")
	switch {
	case which == 3:
		verifReach("malformed-id")
		verifAssert(w.status == http.StatusBadRequest, "C19.malformed-job-id-refused")
		verifAssert(len(st.reads) == 0, "C19.refused-request-reads-no-logs")
	case taskName == "":
		verifReach("empty-task")
		verifAssert(w.status == http.StatusBadRequest, "C19.empty-task-refused")
		verifAssert(len(st.reads) == 0, "C19.refused-request-reads-no-logs")
	case which == 2:
		verifReach("unknown-job")
		verifAssert(w.status == http.StatusNotFound, "C19.unknown-job-refused")
		verifAssert(len(st.reads) == 0, "C19.refused-request-reads-no-logs")
	case !belongs:
		verifReach("foreign-task")
		verifAssert(w.status == http.StatusNotFound, "C19.task-the-job-does-not-have-is-refused")
		verifAssert(len(st.reads) == 0, "C19.refused-request-reads-no-logs")
	default:
		verifReach("own-task")
		verifAssert(w.status == http.StatusOK, "C19.own-task-logs-served")
		verifAssert(len(st.reads) == 2, "C19.both-streams-read")
		if len(st.reads) == 2 {
			verifAssert(st.reads[0] == vReadCall{canonical, taskName, "stdout"} && st.reads[1] == vReadCall{canonical, taskName, "stderr"}, "C19.logs-read-for-exactly-this-job-task-stream")
		}
		for _, rd := range st.readers {
			verifAssert(!rd.open, "C19.log-readers-closed")
		}
		ok := false
		if len(vEncoded) == 1 {
			// the body is an anonymous struct {Stdout, Stderr string}
			if body, is := vEncoded[0].(struct {
				Stdout string `json:"stdout"`
				Stderr string `json:"stderr"`
			}); is {
				ok = body.Stdout == "OUT#1" && body.Stderr == "ERR#2"
			}
		}
		verifAssert(ok, "C19.response-returns-each-stream-as-stored")
	}
}
