package server

// C14: no route works without a valid token.
// The real NewServer and the real chi router (Mux, Group, Route, Mount, tree insertion, chi.Walk)
// are executed; routes are discovered by walking the router, so routes added later are included.
// For every route outside /debug the effective middleware chain must contain jwtauth.Verifier(ja)
// followed by jwtauth.Authenticator, both for the JWTAuth handed to NewServer. What these two
// middlewares do with a request (contract J: 401 unless a valid HS256 token) is trusted.

import (
	"net/http"
	"strings"

	"github.com/go-chi/chi/v5"
	"github.com/go-chi/jwtauth/v5"
)

var vVerifierFor *jwtauth.JWTAuth
var vVerifierCalls int

func vVerifierMarker(next http.Handler) http.Handler { return next }
func vLoggerMarker(next http.Handler) http.Handler   { return next }

func vVerifier(ja *jwtauth.JWTAuth) func(http.Handler) http.Handler {
	vVerifierFor = ja
	vVerifierCalls++
	return vVerifierMarker
}

type vRoute struct {
	method, route string
	verifier      int
	authenticator int
	n             int
}

func VerifC14Routes() {
	verifIntercept("github.com/go-chi/jwtauth/v5.Verifier", vVerifier)
	profiling := verifBool("enable_profiling")
	ja := &jwtauth.JWTAuth{}
	srv := NewServer(nil, nil, vLoggerMarker, ja, profiling)
	mux, ok := srv.handler.(*chi.Mux)
	if !ok {
		verifUnsupported("server handler is not a *chi.Mux: routes cannot be discovered")
		return
	}
	var routes []vRoute
	top := mux.Middlewares()
	var walk func(r chi.Routes, parent string, parentMw []func(http.Handler) http.Handler)
	walk = func(r chi.Routes, parent string, parentMw []func(http.Handler) http.Handler) {
		for _, route := range r.Routes() {
			mws := append([]func(http.Handler) http.Handler{}, parentMw...)
			mws = append(mws, r.Middlewares()...)
			if route.SubRoutes != nil {
				// a mounted sub-router: the mount handler may itself be wrapped by the middlewares of an
				// inline group (chi.Walk does not report those)
				sub := mws
				for _, h := range route.Handlers {
					if chain, ok := h.(*chi.ChainHandler); ok {
						sub = append(append([]func(http.Handler) http.Handler{}, mws...), chain.Middlewares...)
						break
					}
				}
				walk(route.SubRoutes, parent+route.Pattern, sub)
				continue
			}
			for method, handler := range route.Handlers {
				if method == "*" {
					continue
				}
				full := strings.Replace(parent+route.Pattern, "/*/", "/", -1)
				all := mws
				if chain, ok := handler.(*chi.ChainHandler); ok {
					all = append(append([]func(http.Handler) http.Handler{}, mws...), chain.Middlewares...)
				}
				rec := vRoute{method: method, route: full, verifier: -1, authenticator: -1, n: len(all)}
				for i, mw := range all {
					if verifSameFunc(mw, vVerifierMarker) && rec.verifier < 0 {
						rec.verifier = i
					}
					if verifSameFunc(mw, jwtauth.Authenticator) && rec.authenticator < 0 {
						rec.authenticator = i
					}
				}
				routes = append(routes, rec)
			}
		}
	}
	walk(mux, "", nil)
	var err error
	verifAssert(err == nil, "C14.routes-discoverable")
	_ = top
	debug := 0
	api := 0
	for _, r := range routes {
		verifEvent("route " + r.method + " " + r.route)
		if strings.HasPrefix(r.route, "/debug") {
			debug++
			verifAssert(profiling, "C14.profiling-routes-only-when-enabled")
			continue
		}
		api++
		verifAssert(r.verifier >= 0, "C14.route-behind-token-verifier")
		verifAssert(r.authenticator >= 0, "C14.route-behind-authenticator")
		verifAssert(r.verifier >= 0 && r.authenticator > r.verifier, "C14.verifier-before-authenticator")
	}
	verifAssert(vVerifierCalls >= 1 && vVerifierFor == ja, "C14.verifier-uses-configured-token-auth")
	if profiling {
		verifReach("profiling-on")
		verifAssert(debug > 0, "C14.profiling-routes-exist-when-enabled")
	} else {
		verifReach("profiling-off")
		verifAssert(debug == 0, "C14.profiling-routes-only-when-enabled")
	}
	verifAssert(api >= 6, "C14.api-routes-registered")
	if api >= 6 {
		verifReach("six-api-routes")
	}
}
