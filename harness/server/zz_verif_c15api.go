package server

// C15 (HTTP API level): what the handlers behind GET /pipelines/, GET /pipelines/jobs and
// GET /job/detail report agrees with the runner. The runner is started from an ARBITRARY persisted
// snapshot (finished, canceled, interrupted jobs in every flag combination, symbolic creation
// instants) and optionally gets one fresh request on a pipeline with a start delay (a waiting job)
// or without (a started job whose scheduler goroutine is pending); then the real handlers run
// (listPipelines, listPipelineJobs with the real sort.Slice code, jobToResult, jobDetail) and their
// response bodies are compared with what the runner itself says (ListPipelines / IterateJobs /
// ReadJob, which the runner-level checks of C15 decide) and with the property's own definition
// of "running". JSON encoding and query parsing are stubs.

import (
	"context"
	"net/http"
	"net/url"
	"time"

	"github.com/Flowpack/prunner"
	"github.com/Flowpack/prunner/definition"
	"github.com/Flowpack/prunner/store"
	"github.com/Flowpack/prunner/taskctl"
)

type vApiStore struct{ data *store.PersistedData }

func (s *vApiStore) Load() (*store.PersistedData, error) { return s.data, nil }
func (s *vApiStore) Save(d *store.PersistedData) error   { return nil }

func vApiID(n int) [16]byte {
	var u [16]byte
	u[0] = 0xA0
	u[15] = byte(n)
	return u
}

func vApiPersistedJob(tag string, n int) store.PersistedJob {
	pj := store.PersistedJob{ID: vApiID(n), Pipeline: "p", User: "u"}
	if verifChoose(tag+"?pipeline", 2) == 1 {
		pj.Pipeline = "d"
	}
	pj.Completed = verifBool(tag + ".completed")
	pj.Canceled = verifBool(tag + ".canceled")
	c := verifInt64(tag + ".created")
	verifAssume(c > 0 && c < 1<<61)
	pj.Created = verifTime(c)
	if verifChoose(tag+"?started", 2) == 1 {
		st := verifTime(c)
		pj.Start = &st
		if verifChoose(tag+"?ended", 2) == 1 {
			en := verifTime(c)
			pj.End = &en
		}
	}
	if verifChoose(tag+"?task", 2) == 1 {
		pj.Tasks = append(pj.Tasks, store.PersistedTask{Name: "a", Status: verifString(tag + ".task.status"), Errored: verifBool(tag + ".task.errored")})
	}
	return pj
}

type vApiJobView struct {
	id                  string
	pipeline            string
	completed, canceled bool
	created             int64
	started, ended      bool
	ntasks              int
	errored             bool
}

func VerifC15Api() {
	verifIntercept("github.com/gofrs/uuid.NewV4", vSrvNewV4)
	verifIntercept("(*net/url.URL).Query", vURLQuery)
	verifIntercept("(*github.com/json-iterator/go.Encoder).Encode", vEncode)
	// start timers never fire in this harness (the delay of pipeline d is one hour)
	verifIntercept("time.AfterFunc", func(d time.Duration, f func()) *time.Timer { return &time.Timer{} })
	verifIntercept("(*time.Timer).Stop", func(t *time.Timer) bool { return true })
	json = vJSONAPI{}
	vEncoded = nil
	NJ := verifBound("NJ", 2)
	one := 1
	defs := &definition.PipelinesDef{Pipelines: map[string]definition.PipelineDef{
		"p": {Concurrency: 1, QueueLimit: &one, Tasks: map[string]definition.TaskDef{"a": {Script: []string{"x"}}}},
		"d": {Concurrency: 1, QueueLimit: &one, StartDelay: time.Hour, Tasks: map[string]definition.TaskDef{"a": {Script: []string{"x"}}}},
	}}
	data := &store.PersistedData{}
	n := verifChoose("#jobs", NJ+1)
	for i := 0; i < n; i++ {
		data.Jobs = append(data.Jobs, vApiPersistedJob("job", i+1))
	}
	r, err := prunner.NewPipelineRunner(context.Background(), defs, func(j *prunner.PipelineJob) taskctl.Runner { return &vSrvRunner{} }, &vApiStore{data}, &vLogStore{})
	if err != nil || r == nil {
		verifUnsupported("NewPipelineRunner failed")
		return
	}
	// optionally one fresh request: 0 none, 1 on p (starts), 2 on d (waits for its start delay),
	// 3 two on d (second is refused: queue full - d is then listed as not schedulable)
	switch verifChoose("fresh-requests", 4) {
	case 1:
		_, _ = r.ScheduleAsync("p", prunner.ScheduleOpts{})
		verifReach("running-job")
	case 2:
		_, _ = r.ScheduleAsync("d", prunner.ScheduleOpts{})
		verifReach("waiting-job")
	case 3:
		_, _ = r.ScheduleAsync("d", prunner.ScheduleOpts{})
		_, e2 := r.ScheduleAsync("d", prunner.ScheduleOpts{})
		if e2 != nil {
			verifReach("queue-full")
		}
	}

	// what the runner says (reference)
	var ref []vApiJobView
	r.IterateJobs(func(j *prunner.PipelineJob) {
		v := vApiJobView{id: j.ID.String(), pipeline: j.Pipeline, completed: j.Completed, canceled: j.Canceled, created: verifTimeNs(j.Created),
			started: j.Start != nil, ended: j.End != nil, ntasks: len(j.Tasks)}
		for _, t := range j.Tasks {
			if t.Errored {
				v.errored = true
			}
		}
		ref = append(ref, v)
	})
	infos := r.ListPipelines()

	srv := &server{pRunner: r, outputStore: &vLogStore{}}
	which := verifChoose("endpoint", 3)
	w := &vRespWriter{header: http.Header{}}
	var gotPipelines []pipelineResult
	var gotJobs []pipelineJobResult
	switch which {
	case 0:
		srv.pipelines(w, &http.Request{URL: &url.URL{}})
		if len(vEncoded) == 1 {
			if body, ok := vEncoded[0].(struct {
				Pipelines []pipelineResult `json:"pipelines"`
			}); ok {
				gotPipelines = body.Pipelines
				verifReach("pipelines")
			} else {
				verifUnsupported("unexpected response body type of GET /pipelines/")
			}
		}
	case 1:
		srv.pipelinesJobs(w, &http.Request{URL: &url.URL{}})
		if len(vEncoded) == 1 {
			if body, ok := vEncoded[0].(struct {
				Pipelines []pipelineResult    `json:"pipelines"`
				Jobs      []pipelineJobResult `json:"jobs"`
			}); ok {
				gotPipelines = body.Pipelines
				gotJobs = body.Jobs
				verifReach("pipelines-jobs")
			} else {
				verifUnsupported("unexpected response body type of GET /pipelines/jobs")
			}
		}
	case 2:
		if len(ref) == 0 {
			return
		}
		k := verifChoose("detail-of", len(ref))
		vQuery = url.Values{"id": []string{ref[k].id}}
		srv.jobDetail(w, &http.Request{URL: &url.URL{}})
		verifAssert(w.status == http.StatusOK && len(vEncoded) == 1, "C15.reported-by-id")
		if len(vEncoded) == 1 {
			if body, ok := vEncoded[0].(pipelineJobResult); ok {
				vApiSameJob(body, ref[k])
				verifReach("detail")
			} else {
				verifUnsupported("unexpected response body type of GET /job/detail")
			}
		}
		return
	}
	verifAssert(w.status == http.StatusOK && len(vEncoded) == 1, "C15.listing-answers")

	// pipelines: same set as the runner lists; flags as the runner says AND as the property defines
	verifAssert(len(gotPipelines) == len(infos), "C15.api-lists-every-pipeline")
	for _, gp := range gotPipelines {
		found := false
		for _, pi := range infos {
			if pi.Pipeline == gp.Pipeline {
				found = true
				verifAssert(gp.Schedulable == pi.Schedulable, "C15.api-schedulable-flag-is-the-runners")
				verifAssert(gp.Running == pi.Running, "C15.api-running-flag-is-the-runners")
			}
		}
		verifAssert(found, "C15.api-lists-every-pipeline")
		running := false
		for _, v := range ref {
			if v.pipeline == gp.Pipeline && v.started && !v.completed && !v.canceled {
				running = true
			}
		}
		verifAssert(gp.Running == running, "C15.api-running-iff-a-job-started-and-is-neither-completed-nor-canceled")
	}
	if which == 1 {
		verifAssert(len(gotJobs) == len(ref), "C15.api-job-list-has-every-job-once")
		for _, v := range ref {
			cnt := 0
			for _, g := range gotJobs {
				if g.ID == v.id {
					cnt++
					vApiSameJob(g, v)
				}
			}
			verifAssert(cnt == 1, "C15.api-job-list-has-every-job-once")
		}
		for i := 1; i < len(gotJobs); i++ {
			verifAssert(!gotJobs[i-1].Created.Before(gotJobs[i].Created), "C15.api-job-list-newest-first")
		}
		if len(gotJobs) >= 3 {
			verifReach("three-jobs-listed")
		}
	}
}

func vApiSameJob(g pipelineJobResult, v vApiJobView) {
	verifAssert(g.ID == v.id && g.Pipeline == v.pipeline, "C15.api-job-identity")
	verifAssert(g.Completed == v.completed && g.Canceled == v.canceled, "C15.api-job-flags")
	verifAssert(verifTimeNs(g.Created) == v.created, "C15.api-job-times")
	verifAssert((g.Start != nil) == v.started && (g.End != nil) == v.ended, "C15.api-job-times")
	verifAssert(len(g.Tasks) == v.ntasks, "C15.api-job-tasks")
	verifAssert(g.Errored == v.errored, "C15.api-job-errored-flag")
}
