package prunner

import (
	"sort"
	"time"

	"github.com/Flowpack/prunner/definition"
)

func VerifSmoke1() {
	x := verifInt("x")
	y := verifInt("y")
	verifAssume(x > 0 && x < 100)
	if x > y {
		verifReach("x>y")
		verifAssert(x-y > 0, "diff-positive")
	} else {
		verifReach("x<=y")
		verifAssert(y-x >= 0, "diff-nonneg") // fails on overflow: y huge? y-x with x in (0,100): y>=x so y-x >= 0 holds
	}
	m := map[string]int{}
	s := verifString("s")
	m["a"] = 1
	m[s] = 2
	if m["a"] == 2 {
		verifReach("s==a")
	}
	verifAssert(len(m) <= 2, "maplen")
}

func VerifSmoke2() {
	// sorting with symbolic times through the real sorter
	n := 3
	jobs := make([]*PipelineJob, n)
	for i := range jobs {
		jobs[i] = &PipelineJob{Created: verifTime(verifInt64("created"))}
	}
	pipelineJobBy(byCreationTimeDesc).Sort(jobs)
	for i := 0; i+1 < n; i++ {
		verifAssert(!jobs[i].Created.Before(jobs[i+1].Created), "sorted-desc")
	}
	names := []string{verifString("n0"), verifString("n1"), "m"}
	sort.Strings(names)
	verifAssert(names[0] <= names[1] && names[1] <= names[2], "strings-sorted")
}

func VerifSmoke3() {
	var d definition.PipelineDef
	verifArbitrary("def", &d)
	verifAssume(d.Concurrency > 0)
	if d.QueueLimit != nil {
		verifReach("limit-set")
	}
	d2 := d
	verifAssert(verifDeepEqual(d, d2), "copy-equal")
	d2.StartDelay = d.StartDelay + time.Duration(1)
	verifAssert(!verifDeepEqual(d, d2), "changed-differs")
	verifAssert(d.Equals(d), "equals-reflexive")
}
