package app

// C14 (wiring part, read statically from the SSA of package app): the token authority handed to
// the server is created with the HS256 algorithm, and generated secrets are 32 characters long.

func VerifC14App() {
	alg := verifCallConstArg("github.com/Flowpack/prunner/app", "github.com/go-chi/jwtauth/v5.New", 0)
	verifNote("jwtauth.New algorithm argument", alg)
	if alg == "" {
		verifUnsupported("no static call to jwtauth.New found in package app")
	}
	verifAssert(alg == "HS256", "C14.tokens-verified-with-HS256")
	// the profiling switch handed to NewServer is the VALUE of the enable-profiling flag
	src := verifCallArgSource("github.com/Flowpack/prunner/app", "github.com/Flowpack/prunner/server.NewServer", 4)
	verifNote("NewServer enableProfiling argument", src)
	if src == "" {
		verifUnsupported("no static call to server.NewServer found in package app")
	}
	verifAssert(src == "(*github.com/urfave/cli/v2.Context).Bool(\"enable-profiling\")", "C14.profiling-only-when-explicitly-enabled")
	verifReach("checked")
}
