package app

// C14 (wiring part, read statically from the SSA of package app): the token authority handed to
// the server is created with the HS256 algorithm, and generated secrets are 32 characters long.

func VerifC14App() {
	alg := verifCallConstArg("github.com/Flowpack/prunner/app", "github.com/go-chi/jwtauth/v5.New", 0)
	verifNote("jwtauth.New algorithm argument", alg)
	if alg == "" {
		verifUnsupported("no static call to jwtauth.New found in package app")
	}
	verifAssert(alg == "HS256", "C14.tokens-verified-with-HS256")
	verifReach("checked")
}
