package app

// C16 / C17 (reload plumbing of app.go): handleDefinitionChanges is executed from its real SSA as a
// thread of the engine. The loader, the CLI flags, the ticker, the signal subscription and the
// runner's ReplaceDefinitions are stubs; what every (re)load returns is symbolic (an error, or a
// definition set whose task script is a fresh symbolic string), so "edit", "no edit", "edit and
// revert" and "broken file in between" are all values of the same run. Obligation: once a reload
// has been processed, the definitions the runner holds are the ones that were loaded last
// successfully - no edit is ignored, a failed load changes nothing.

import (
	"context"
	"errors"
	"os"
	"time"

	"github.com/Flowpack/prunner"
	"github.com/Flowpack/prunner/definition"
	"github.com/urfave/cli/v2"
)

type vReloadCtx struct {
	done chan struct{}
	err  error
}

func (c *vReloadCtx) Deadline() (time.Time, bool)       { return time.Time{}, false }
func (c *vReloadCtx) Done() <-chan struct{}             { return c.done }
func (c *vReloadCtx) Err() error                        { return c.err }
func (c *vReloadCtx) Value(key interface{}) interface{} { return nil }

type vReloadState struct {
	watch       bool
	tickC       chan time.Time
	sigC        chan os.Signal
	current     *definition.PipelinesDef // what the runner holds
	lastLoaded  *definition.PipelinesDef // what the files said at the last successful load
	loads       int
	replaces    int
	inReload    bool
	tickerStops int
}

var vRL *vReloadState

func vMkDefs(script string, withSecond bool) *definition.PipelinesDef {
	d := &definition.PipelinesDef{Pipelines: definition.PipelinesMap{}}
	d.Pipelines["p"] = definition.PipelineDef{
		Concurrency: 1,
		Tasks:       map[string]definition.TaskDef{"a": {Script: []string{script}}},
		SourcePath:  "/defs/pipelines.yml",
	}
	if withSecond {
		d.Pipelines["q"] = definition.PipelineDef{
			Concurrency: 1,
			Tasks:       map[string]definition.TaskDef{"a": {Script: []string{"fixed"}}},
			SourcePath:  "/defs/pipelines.yml",
		}
	}
	return d
}

// trusted comparison of two definition sets of the shapes vMkDefs builds (not the code's Equals)
func vSameDefs(a, b *definition.PipelinesDef) bool {
	if a == nil || b == nil {
		return a == b
	}
	if len(a.Pipelines) != len(b.Pipelines) {
		return false
	}
	return a.Pipelines["p"].Tasks["a"].Script[0] == b.Pipelines["p"].Tasks["a"].Script[0]
}

func vReloadCheck(when string) {
	s := vRL
	verifAssert(s.current != nil, "C16.reload-never-installs-nothing")
	if s.current == nil {
		return
	}
	same := vSameDefs(s.current, s.lastLoaded)
	verifAssert(same, "C17.reload-installs-every-edit")
	verifAssert(same, "C16.jobs-after-a-reload-use-the-loaded-definitions")
}

func vLoadRecursively(pattern string) (*definition.PipelinesDef, error) {
	s := vRL
	// the previous reload has been processed completely when the next one begins
	if s.loads > 0 {
		vReloadCheck("next load")
	}
	s.loads++
	if verifChoose("load-result", 2) == 0 {
		verifReach("load-failed")
		return nil, errors.New("broken file")
	}
	d := vMkDefs(verifString("script"), verifChoose("second-pipeline", 2) == 1)
	s.lastLoaded = d
	return d, nil
}

func vReplaceDefinitions(r *prunner.PipelineRunner, defs *definition.PipelinesDef) {
	vRL.replaces++
	vRL.current = defs
}

func VerifC16Reload() {
	verifGoMode(1)
	s := &vReloadState{}
	vRL = s
	s.watch = verifChoose("watch", 2) == 1
	verifIntercept("(*github.com/urfave/cli/v2.Context).Bool", func(c *cli.Context, name string) bool {
		if name == "watch" {
			return s.watch
		}
		verifUnsupported("unexpected flag " + name)
		return false
	})
	verifIntercept("(*github.com/urfave/cli/v2.Context).String", func(c *cli.Context, name string) string { return "/defs" })
	verifIntercept("(*github.com/urfave/cli/v2.Context).Duration", func(c *cli.Context, name string) time.Duration { return time.Second })
	verifIntercept("github.com/Flowpack/prunner/definition.LoadRecursively", vLoadRecursively)
	verifIntercept("(*github.com/Flowpack/prunner.PipelineRunner).ReplaceDefinitions", vReplaceDefinitions)
	verifIntercept("time.NewTicker", func(d time.Duration) *time.Ticker {
		s.tickC = make(chan time.Time)
		return &time.Ticker{C: s.tickC}
	})
	verifIntercept("(*time.Ticker).Stop", func(t *time.Ticker) { s.tickerStops++ })
	verifIntercept("os/signal.Notify", func(c chan<- os.Signal, sig ...os.Signal) {})
	verifIntercept("github.com/Flowpack/prunner/app.notifyReloadSignal", func(c chan os.Signal) { s.sigC = c })

	initial := vMkDefs(verifString("script"), false)
	s.current = initial
	s.lastLoaded = initial
	ctx := &vReloadCtx{done: make(chan struct{})}
	var runner prunner.PipelineRunner
	handleDefinitionChanges(context.Context(ctx), &cli.Context{}, &runner, initial)

	rounds := verifBound("rounds", 3)
	for i := 0; i < rounds; i++ {
		// the goroutine must be parked in its select before an event can be handed over: an
		// unbuffered hand-over completes only when the previous event was processed
		verifBlockUntil(func() bool { return s.tickC != nil && s.sigC != nil })
		if verifChoose("event", 2) == 0 {
			verifEvent("tick")
			s.tickC <- time.Time{}
		} else {
			verifEvent("SIGUSR1")
			s.sigC <- os.Interrupt
			verifReach("signal")
		}
	}
	verifEvent("context canceled")
	ctx.err = context.Canceled
	close(ctx.done)
	verifBlockUntil(func() bool { return verifThreadsAlive() == 0 })
	vReloadCheck("end")
	if s.replaces >= 2 {
		verifReach("two-reloads-installed")
	}
	if s.loads >= 1 && s.replaces == 0 {
		verifReach("reload-without-change")
	}
	verifReach("end")
}
