package prunner

// C11: shutdown leaves only terminal jobs and a store that matches them.
//
// A symbolic prefix of L3 events builds an arbitrary state (running, waiting, delayed, finished
// jobs). Then the pending activities become threads (scheduler goroutines that finish on their own
// at an arbitrary moment or when told to stop, timers, cancel goroutines, the persist loop), a
// client thread issues a racing schedule request, and the harness thread calls the real
// Shutdown(ctx); in the forced variant ctx is canceled by another thread at an arbitrary point.
// All interleavings at visible operations within the preemption bound are explored.

import (
	"context"
	"time"

	"github.com/friendsofgo/errors"

	"github.com/Flowpack/prunner/definition"
	"github.com/Flowpack/prunner/store"
	"github.com/Flowpack/prunner/taskctl"
)

type vC11 struct {
	w             *vWorld
	st            *vStore
	forced        bool
	ctxCanceled   bool
	shutdownRet   bool
	runningAtStop map[*vJob]bool
	raceJob       *PipelineJob
	raceErr       error
	raceDone      bool
	sleepArg      time.Duration
	cancelCalls   int
	runners       map[*PipelineJob]*vRunner
	neverEnding   bool
}

var vS *vC11

// threaded scheduler stub (contract G2): the job's tasks end by themselves at an arbitrary moment
// (this thread being scheduled) or are cut short once a stop was delivered.
func vScheduleThreaded(s *taskctl.Scheduler, g interface{}) error {
	var job *PipelineJob
	for _, j := range vW.r.jobsByID {
		if j.sched == s {
			job = j
		}
	}
	if job == nil {
		verifFail("harness: Schedule on unknown scheduler")
		return nil
	}
	vr := vS.runners[job]
	vj := vW.byJob(job)
	verifYield()
	if vS.forced && vS.neverEnding && vr != nil {
		// a job that only ends when it is told to stop (forced variant only: the graceful variant
		// presumes that tasks terminate)
		verifBlockUntil(func() bool { return vr.cancelled })
	}
	verifAssert(!vS.shutdownRet, "C11.no-task-executing-after-shutdown-returned")
	if vj != nil {
		vj.returned = true
		vj.live = false
	}
	if vr != nil && vr.cancelled {
		return errors.Wrap(context.Canceled, "task canceled")
	}
	return nil
}

func vAfterThreaded(d time.Duration) <-chan time.Time {
	// the poll interval elapses at some later point: a helper fires once something has changed
	// since it was armed (idle-iteration elision); if nothing ever changes it never fires and
	// the select is left to its other cases
	ch := make(chan time.Time, 1)
	verifGo(func() {
		verifSleep()
		ch <- time.Time{}
	})
	return ch
}

func vSleepThreaded(d time.Duration) {
	vS.sleepArg = d
	verifSleep()
}

// VerifC11Shutdown
func VerifC11Shutdown() {
	K := verifBound("K", 3)
	N := verifBound("N", 3)
	w := &vWorld{envAtRunner: map[*PipelineJob]map[string]string{}}
	vW = w
	c := &vC11{w: w, st: &vStore{}, runningAtStop: map[*vJob]bool{}, runners: map[*PipelineJob]*vRunner{}}
	vS = c
	verifIntercept("github.com/gofrs/uuid.NewV4", vNewV4)
	verifIntercept("time.AfterFunc", vAfterFunc)
	verifIntercept("(*time.Timer).Stop", vTimerStop)
	verifIntercept("(*github.com/Flowpack/prunner/taskctl.Scheduler).Schedule", vScheduleStub)
	w.defs = vMakeDefs("def", 0)
	runnerCtx := &vCtx{done: make(chan struct{})}
	r, err := NewPipelineRunner(runnerCtx, w.defs, func(j *PipelineJob) taskctl.Runner {
		w.envAtRunner[j] = j.Env
		vr := &vRunner{job: j}
		c.runners[j] = vr
		return vr
	}, c.st, &vOutputStore{})
	if err != nil {
		verifFail("harness: NewPipelineRunner failed")
		return
	}
	w.r = r
	w.scanSpawned() // the persist loop goroutine is an "other" goroutine
	// a second, idle pipeline with one finished job (from an earlier run); whether it comes before or
	// after the focal pipeline in the runner's maps is a choice
	w.defs.Pipelines["q"] = definition.PipelineDef{Concurrency: 1, Tasks: map[string]definition.TaskDef{"t": {Script: []string{"x"}}}}
	idle := func() {
		fin := &PipelineJob{ID: vID(99), Pipeline: "q", Completed: true, Created: verifTime(1), Tasks: jobTasks{{Name: "t", Status: "done"}}}
		st := verifTime(2)
		fin.Start, fin.End = &st, &st
		r.jobsByID[fin.ID] = fin
		r.jobsByPipeline["q"] = append(r.jobsByPipeline["q"], fin)
	}
	idleFirst := verifBound("idlepipeline", 1) == 1 && verifChoose("idle-pipeline-first", 2) == 1
	if idleFirst {
		idle()
	}
	// ---- prefix: build an arbitrary state with L3 events (no reloads) ----
	for step := 0; step < K; step++ {
		evs := w.enabled(N, 0)
		var use []vEvent
		for _, e := range evs {
			if e.kind == 8 {
				continue // the persist loop becomes a thread below
			}
			use = append(use, e)
		}
		if len(use) == 0 {
			break
		}
		n := verifChoose("prefix-event", len(use)+1)
		if n == len(use) {
			break // shorter prefix
		}
		ev := use[n]
		w.evStart = vNowNs()
		switch ev.kind {
		case 0:
			w.doSchedule(false)
		case 1:
			w.doSchedule(true)
		case 2:
			w.doCancel(w.jobs[ev.idx])
		case 3:
			w.doRet(w.jobs[ev.idx], ev.sub)
		case 4:
			cg := w.cancelGos[ev.idx]
			cg.done = true
			verifEvent("CGO")
			verifRunSpawned(cg.idx)
			w.scanSpawned()
		case 5:
			w.doTimer(w.timers[ev.idx])
		case 6:
			w.doTaskErr(w.jobs[ev.idx])
		}
	}
	if verifBound("idlepipeline", 1) == 1 && !idleFirst {
		idle()
	}
	nRunning, nWaiting := 0, 0
	for _, vj := range w.jobs {
		if vj.live {
			nRunning++
		}
		if vj.waitingLive() {
			nWaiting++
		}
	}
	if nRunning > 0 {
		verifReach("shutdown.with-running-job")
	}
	if nWaiting > 0 {
		verifReach("shutdown.with-waiting-job")
	}
	// ---- switch to threads ----
	verifIntercept("(*github.com/Flowpack/prunner/taskctl.Scheduler).Schedule", vScheduleThreaded)
	verifIntercept("time.After", vAfterThreaded)
	verifIntercept("time.Sleep", vSleepThreaded)
	verifGoMode(1)
	c.st.slow = verifBound("persistloop", 0) == 1
	for _, vj := range w.jobs {
		if vj.live {
			verifStartSpawned(vj.spawnIdx)
		}
	}
	for _, cg := range w.cancelGos {
		if !cg.done {
			cg.done = true
			verifEvent("  thread: cancel goroutine")
			verifStartSpawned(cg.idx)
		}
	}
	for k, og := range w.otherGos {
		if k == 0 && verifBound("persistloop", 0) != 1 {
			continue // [0] is the persist loop started by NewPipelineRunner
		}
		if !og.done {
			og.done = true
			verifStartSpawned(og.idx)
		}
	}
	for _, vt := range w.timers {
		if verifBound("timerthreads", 0) == 1 && !vt.fired && !vt.stopped {
			t := vt
			verifGo(func() {
				verifYield()
				if !t.stopped {
					t.fired = true
					t.f()
				}
			})
		}
	}
	c.forced = verifChoose("forced", 2) == 1
	ctx := &vCtx{done: make(chan struct{})}
	if c.forced {
		c.neverEnding = verifChoose("running-jobs-end-only-when-stopped", 2) == 1
		verifEvent("SHUTDOWN forced")
		if c.neverEnding {
			verifEvent("  running jobs end only when they are told to stop")
		}
		verifGo(func() {
			verifYield()
			for _, vj := range w.jobs {
				if vj.live {
					c.runningAtStop[vj] = true
				}
			}
			c.ctxCanceled = true
			ctx.err = context.Canceled
			close(ctx.done)
		})
	} else {
		verifEvent("SHUTDOWN graceful")
	}
	if verifBound("racer", 1) == 1 {
		verifGo(func() {
			verifYield()
			j, e := r.ScheduleAsync(vP, ScheduleOpts{User: "racer"})
			c.raceJob, c.raceErr, c.raceDone = j, e, true
		})
	}
	runningBefore := map[*vJob]bool{}
	for _, vj := range w.jobs {
		if vj.live {
			runningBefore[vj] = true
		}
	}

	if verifBound("racer", 1) == 1 {
		verifYieldAny() // anything that is pending may happen before the shutdown call takes the lock
	}
	serr := r.Shutdown(ctx)
	c.shutdownRet = true
	verifEvent("Shutdown returned")

	// ---- at return ----
	if !c.forced {
		verifAssert(serr == nil, "C11.graceful-shutdown-succeeds")
	}
	saved := map[string]store.PersistedJob{}
	verifAssert(len(c.st.saved) >= 1, "C11.final-save-happened")
	if len(c.st.saved) >= 1 {
		for _, pj := range c.st.saved[len(c.st.saved)-1].Jobs {
			saved[pj.ID.String()] = pj
		}
	}
	nJobs := 0
	r.IterateJobs(func(j *PipelineJob) {
		nJobs++
		verifAssert(j.Completed || j.Canceled, "C11.every-job-terminal-at-return")
		verifAssert(!j.isRunning(), "C11.no-job-running-at-return")
		verifAssert(!(j.Start == nil && !j.Canceled), "C11.no-job-waiting-at-return")
		pj, ok := saved[j.ID.String()]
		verifAssert(ok, "C11.store-holds-every-job")
		if ok {
			verifAssert(pj.Completed == j.Completed && pj.Canceled == j.Canceled && (pj.End == nil) == (j.End == nil) && (pj.Start == nil) == (j.Start == nil), "C11.store-equals-final-state")
		}
	})
	verifAssert(len(saved) == nJobs, "C11.store-equals-final-state")
	for _, vj := range w.jobs {
		verifAssert(!vj.live, "C11.no-task-executing-at-return")
		if runningBefore[vj] {
			if !c.forced {
				// graceful: running jobs are never told to stop by the shutdown itself
				if !vj.cancelAck && !vj.taskErrored {
					verifAssert(!vj.cancelDelivered, "C11.graceful-does-not-stop-running-jobs")
					verifAssert(vj.job.Completed && !vj.job.Canceled, "C11.graceful-lets-running-jobs-finish")
				}
			}
		}
	}
	if c.forced {
		verifReach("shutdown.forced")
		for vj := range c.runningAtStop {
			if vj.returned && vj.job.Completed && !vj.job.Canceled {
				continue // finished on its own while the stop was on its way
			}
			verifAssert(vj.cancelDelivered, "C11.forced-stops-running-jobs")
		}
	} else {
		verifReach("shutdown.graceful")
	}
	// requests after shutdown
	nBefore := nJobs
	lj, lerr := r.ScheduleAsync(vP, ScheduleOpts{User: "late"})
	verifAssert(lj == nil && lerr == ErrShuttingDown, "C11.no-request-accepted-after-shutdown")
	n2 := 0
	r.IterateJobs(func(j *PipelineJob) { n2++ })
	verifAssert(n2 == nBefore, "C11.rejected-request-changes-nothing")
	// the racing request: rejected, or its job is terminal now
	if c.raceDone && c.raceErr == nil && c.raceJob != nil {
		verifReach("racer.accepted")
		verifAssert(c.raceJob.Completed || c.raceJob.Canceled, "C11.request-accepted-during-shutdown-is-finished")
	}
	if c.raceDone && c.raceErr == ErrShuttingDown {
		verifReach("racer.rejected")
	}
	// persist loop shape: at most the documented 3 seconds between saves
	if c.sleepArg != 0 {
		verifAssert(c.sleepArg <= 3*time.Second, "C11.persist-interval-at-most-3s")
	}
	verifReach("end")
}

var _ = definition.QueueStrategyAppend

// VerifC11Persist: the persist loop (real goroutine of NewPipelineRunner) races the shutdown: a
// periodic save whose write is slow must not land after the final save of Shutdown, i.e. when
// Shutdown has returned and every activity has ended the store holds the final state of every job.
// One running and one waiting job, concrete configuration, graceful shutdown; the store's write is
// a switch point.
func VerifC11Persist() {
	w := &vWorld{envAtRunner: map[*PipelineJob]map[string]string{}}
	vW = w
	c := &vC11{w: w, st: &vStore{}, runningAtStop: map[*vJob]bool{}, runners: map[*PipelineJob]*vRunner{}}
	vS = c
	verifIntercept("github.com/gofrs/uuid.NewV4", vNewV4)
	verifIntercept("time.AfterFunc", vAfterFunc)
	verifIntercept("(*time.Timer).Stop", vTimerStop)
	verifIntercept("(*github.com/Flowpack/prunner/taskctl.Scheduler).Schedule", vScheduleStub)
	w.defs = &definition.PipelinesDef{Pipelines: map[string]definition.PipelineDef{vP: {Concurrency: 1, Tasks: vTasks(0), Env: vEnv(0)}}}
	runnerCtx := &vCtx{done: make(chan struct{})}
	r, err := NewPipelineRunner(runnerCtx, w.defs, func(j *PipelineJob) taskctl.Runner {
		vr := &vRunner{job: j}
		c.runners[j] = vr
		return vr
	}, c.st, &vOutputStore{})
	if err != nil {
		verifFail("harness: NewPipelineRunner failed")
		return
	}
	w.r = r
	w.scanSpawned()
	w.evStart = vNowNs()
	w.doSchedule(false) // j1 runs
	w.doSchedule(false) // j2 waits
	verifIntercept("(*github.com/Flowpack/prunner/taskctl.Scheduler).Schedule", vScheduleThreaded)
	verifIntercept("time.After", vAfterThreaded)
	verifIntercept("time.Sleep", vSleepThreaded)
	verifGoMode(1)
	c.st.slow = true
	for _, vj := range w.jobs {
		if vj.live {
			verifStartSpawned(vj.spawnIdx)
		}
	}
	for _, og := range w.otherGos {
		if !og.done {
			og.done = true
			verifStartSpawned(og.idx) // the persist loop
		}
	}
	ctx := &vCtx{done: make(chan struct{})}
	verifEvent("SHUTDOWN graceful (persist loop running)")
	serr := r.Shutdown(ctx)
	c.shutdownRet = true
	verifAssert(serr == nil, "C11.graceful-shutdown-succeeds")
	// let an in-flight periodic save land, then stop the persist loop
	verifYield()
	close(runnerCtx.done)
	verifBlockUntil(func() bool { return verifThreadsAlive() == 0 })
	verifAssert(len(c.st.saved) >= 1, "C11.final-save-happened")
	if len(c.st.saved) == 0 {
		return
	}
	last := c.st.saved[len(c.st.saved)-1]
	n := 0
	r.IterateJobs(func(j *PipelineJob) {
		n++
		found := false
		for _, pj := range last.Jobs {
			if pj.ID == j.ID {
				found = true
				verifAssert(pj.Completed == j.Completed && pj.Canceled == j.Canceled && (pj.End == nil) == (j.End == nil), "C11.store-equals-final-state")
			}
		}
		verifAssert(found, "C11.store-holds-every-job")
		verifAssert(j.Completed || j.Canceled, "C11.every-job-terminal-at-return")
	})
	if len(c.st.saved) >= 2 {
		verifReach("periodic-and-final-save")
	}
	if c.sleepArg != 0 {
		verifAssert(c.sleepArg <= 3*time.Second, "C11.persist-interval-at-most-3s")
		verifReach("persist-interval-seen")
	}
	verifReach("end")
}

// VerifC11Race: one ScheduleAsync request races a graceful Shutdown of an otherwise idle runner
// (pipeline with or without start delay). Every atomic operation, channel operation and blocking lock
// is a switch point (preemption bound from the run). Whatever the interleaving: the request is either
// refused with ErrShuttingDown and leaves nothing behind, or its job is terminal and in the store once
// Shutdown has returned and the request has returned.
func VerifC11Race() {
	w := &vWorld{envAtRunner: map[*PipelineJob]map[string]string{}}
	vW = w
	c := &vC11{w: w, st: &vStore{}, runningAtStop: map[*vJob]bool{}, runners: map[*PipelineJob]*vRunner{}}
	vS = c
	verifIntercept("github.com/gofrs/uuid.NewV4", vNewV4)
	verifIntercept("time.AfterFunc", vAfterFunc)
	verifIntercept("(*time.Timer).Stop", vTimerStop)
	verifIntercept("(*github.com/Flowpack/prunner/taskctl.Scheduler).Schedule", vScheduleThreaded)
	verifIntercept("time.After", vAfterThreaded)
	verifIntercept("time.Sleep", vSleepThreaded)
	def := definition.PipelineDef{Concurrency: 1, Tasks: vTasks(0), Env: vEnv(0)}
	if verifChoose("start_delay", 2) == 1 {
		def.StartDelay = time.Second
		ql := 2
		def.QueueLimit = &ql
	}
	w.defs = &definition.PipelinesDef{Pipelines: map[string]definition.PipelineDef{vP: def}}
	r, err := NewPipelineRunner(&vCtx{done: make(chan struct{})}, w.defs, func(j *PipelineJob) taskctl.Runner {
		vr := &vRunner{job: j}
		c.runners[j] = vr
		return vr
	}, c.st, &vOutputStore{})
	if err != nil {
		verifFail("harness: NewPipelineRunner failed")
		return
	}
	w.r = r
	verifGoMode(1)
	var job *PipelineJob
	var serr2 error
	clientDone := false
	verifGo(func() {
		verifYieldAny()
		job, serr2 = r.ScheduleAsync(vP, ScheduleOpts{User: "racer"})
		clientDone = true
	})
	verifYieldAny()
	verifEvent("SHUTDOWN graceful (racing request)")
	serr := r.Shutdown(&vCtx{done: make(chan struct{})})
	c.shutdownRet = true
	nSavesAtReturn := len(c.st.saved)
	verifAssert(serr == nil, "C11.graceful-shutdown-succeeds")
	verifBlockUntil(func() bool { return clientDone })
	if serr2 != nil {
		verifReach("racer.rejected")
		verifAssert(serr2 == ErrShuttingDown && job == nil, "C11.no-request-accepted-after-shutdown")
		verifAssert(len(r.jobsByID) == 0, "C11.rejected-request-changes-nothing")
	} else {
		verifReach("racer.accepted")
		// accepted: it was accepted before or while the shutdown was in progress, so it is finished and
		// its final state is what the store holds
		verifAssert(job != nil && (job.Completed || job.Canceled), "C11.request-accepted-during-shutdown-is-finished")
		verifAssert(!(job != nil && job.Start == nil && !job.Canceled), "C11.no-job-waiting-at-return")
		found := false
		if nSavesAtReturn >= 1 && job != nil {
			for _, pj := range c.st.saved[nSavesAtReturn-1].Jobs {
				if pj.ID == job.ID {
					found = true
					verifAssert(pj.Completed == job.Completed && pj.Canceled == job.Canceled, "C11.store-equals-final-state")
				}
			}
		}
		verifAssert(found, "C11.store-holds-every-job")
	}
	verifReach("end")
}
