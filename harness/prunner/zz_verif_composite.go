package prunner

// Composite harness (C08 verdict, C04 outcome): the real PipelineRunner callbacks
// (HandleTaskChange, HandleStageChange, JobCompleted, cancelJobInternal) together with the REAL
// taskctl.Scheduler and upstream ExecutionGraph, multi-threaded under the engine's scheduler, for one
// job; only the task runner below the Runner interface is a stub (runner contract G1: it reports
// start / failure / end through the task-change callback the way TaskRunner.execute does).

import (
	"context"
	"time"

	"github.com/friendsofgo/errors"
	"github.com/taskctl/taskctl/pkg/task"

	"github.com/Flowpack/prunner/definition"
	"github.com/Flowpack/prunner/taskctl"
)

type vCTask struct {
	name      string
	allowFail bool
	deps      []string
	runs      int
	inFlight  bool
	ok        bool
	failed    bool
	canceled  bool
	finished  bool
}

type vComp struct {
	tasks          map[string]*vCTask
	order          []string
	cancelled      bool // runner.Cancel reached
	inflight       int
	onChange       func(t *task.Task)
	cancelAcked    bool
	r              *PipelineRunner
	job            *PipelineJob
	cancelFromTask string // name of the task during whose run the cancel request arrives ("" = not this way)
	cancelAckedAt  int // number of finished tasks when the cancel was acknowledged
	externalCancel bool
}

var vC *vComp

var vCompErr = errors.New("exit status 1")

type vCompRunner struct{ c *vComp }

func (m *vCompRunner) SetOnTaskChange(f func(t *task.Task)) { m.c.onChange = f }
func (m *vCompRunner) Finish()                              {}
func (m *vCompRunner) Cancel() {
	m.c.cancelled = true
	verifBlockUntil(func() bool { return m.c.inflight == 0 })
}

func (m *vCompRunner) Run(t *task.Task) error {
	c := m.c
	ct := c.tasks[t.Name]
	if c.cancelled {
		return context.Canceled // TaskRunner.Run: r.ctx.Err() before anything else
	}
	ct.runs++
	verifAssert(ct.runs <= 1, "C02.task-runs-at-most-once")
	for _, d := range ct.deps {
		dep := c.tasks[d]
		verifAssert(dep.finished && (dep.ok || (dep.failed && dep.allowFail)), "C08.task-begins-only-after-its-dependencies-ended-well")
	}
	ct.inFlight = true
	c.inflight++
	t.Start = time.Now()
	c.onChange(t)
	verifYield() // the command runs
	if c.cancelFromTask == ct.name && c.job != nil && !c.cancelAcked {
		// the cancel request arrives while this task runs: it is acknowledged, and the task keeps running
		// until the stop has been delivered to the runner (deterministic in-flight cancel, no preemption needed)
		done := false
		_ = c.r.ReadJob(c.job.ID, func(j *PipelineJob) { done = j.Completed })
		if e := c.r.CancelJob(c.job.ID); e == nil && !done {
			c.cancelAcked = true
			verifReach("cancel-while-task-in-flight")
			verifBlockUntil(func() bool { return c.cancelled })
		}
	}
	var res error
	// told to stop while running: the command may die of the interrupt (canceled), or handle it and
	// exit with a status of its own, or finish regularly
	reaction := 0
	if c.cancelled {
		reaction = 1 + verifChoose("reaction-to-stop."+ct.name, 3)
	}
	switch {
	case reaction == 1:
		ct.canceled = true
		t.Errored = true
		t.Error = context.Canceled
		c.onChange(t)
		res = context.Canceled
	case reaction == 2 || (reaction == 0 && verifChoose("outcome."+ct.name, 2) == 1):
		ct.failed = true
		t.ExitCode = 1
		if ct.allowFail {
			// TaskRunner.execute: an exit status with allow_failure is reported and the task goes on
			c.onChange(t)
			t.End = time.Now()
			c.onChange(t)
			res = nil
			ct.ok = false
		} else {
			t.Errored = true
			t.Error = vCompErr
			c.onChange(t)
			res = vCompErr
		}
	default:
		ct.ok = true
		t.End = time.Now()
		c.onChange(t)
	}
	ct.finished = true
	ct.inFlight = false
	c.inflight--
	return res
}

// VerifComposite
func VerifComposite() {
	verifIntercept("github.com/gofrs/uuid.NewV4", vNewV4)
	w := &vWorld{envAtRunner: map[*PipelineJob]map[string]string{}}
	vW = w
	c := &vComp{tasks: map[string]*vCTask{}}
	vC = c
	// two tasks: independent or b after a; allow_failure bits; fail-fast or continue
	bAfterA := verifChoose("b-depends-on-a", 2) == 1
	afA := verifChoose("a.allow_failure", 2) == 1
	afB := verifChoose("b.allow_failure", 2) == 1
	cont := verifChoose("continue_running_tasks_after_failure", 2) == 1
	tb := definition.TaskDef{Script: []string{"b"}, AllowFailure: afB}
	if bAfterA {
		tb.DependsOn = []string{"a"}
	}
	c.tasks["a"] = &vCTask{name: "a", allowFail: afA}
	c.tasks["b"] = &vCTask{name: "b", allowFail: afB, deps: tb.DependsOn}
	defs := &definition.PipelinesDef{Pipelines: map[string]definition.PipelineDef{vP: {
		Concurrency: 1, ContinueRunningTasksAfterFailure: cont,
		Tasks: map[string]definition.TaskDef{"a": {Script: []string{"a"}, AllowFailure: afA}, "b": tb},
	}}}
	w.defs = defs
	r, err := NewPipelineRunner(context.Background(), defs, func(j *PipelineJob) taskctl.Runner { return &vCompRunner{c: c} }, nil, nil)
	if err != nil {
		verifFail("harness: NewPipelineRunner failed")
		return
	}
	w.r = r
	verifGoMode(1)
	job, serr := r.ScheduleAsync(vP, ScheduleOpts{})
	if serr != nil || job == nil {
		verifFail("harness: schedule failed")
		return
	}
	c.r, c.job = r, job
	// cancel request: none / from another client at any point where the job's threads block / while
	// task a or task b is running
	cancelMode := verifChoose("cancel-request", 4)
	c.externalCancel = cancelMode != 0
	if cancelMode >= 2 {
		c.cancelFromTask = []string{"a", "b"}[cancelMode-2]
	}
	if cancelMode == 1 {
		verifGo(func() {
			verifYield()
			e := r.CancelJob(job.ID)
			done := false
			_ = r.ReadJob(job.ID, func(j *PipelineJob) { done = j.Completed })
			if e == nil && !done {
				c.cancelAcked = true
				n := 0
				for _, t := range c.tasks {
					if t.finished {
						n++
					}
				}
				c.cancelAckedAt = n
			}
		})
	}
	// wait for the job to be reported completed
	// (the condition is evaluated by the engine's scheduler; it reads the flag directly, without locking)
	verifBlockUntil(func() bool { return job.Completed })
	verifBlockUntil(func() bool { return verifThreadsAlive() == 0 })

	_ = r.ReadJob(job.ID, func(j *PipelineJob) {
		allGood := true
		anyHardFailure := false
		for _, name := range []string{"a", "b"} {
			t := c.tasks[name]
			if !(t.runs == 1 && t.finished && !t.canceled && (t.ok || (t.failed && t.allowFail))) {
				allGood = false
			}
			if t.failed && !t.allowFail {
				anyHardFailure = true
			}
			jt := j.Tasks.ByName(name)
			verifAssert(jt != nil, "C08.task-reported")
			if jt != nil {
				verifAssert(jt.Status != "running", "C08.no-task-reported-running-once-completed")
				if t.runs == 0 {
					verifAssert(jt.Start == nil, "C08.task-that-never-ran-has-no-start")
				}
				if t.failed && !t.allowFail {
					verifAssert(jt.Errored, "C08.failed-task-reported-errored")
				}
				if t.failed && t.allowFail {
					verifAssert(!jt.Errored, "C08.allowed-failure-does-not-mark-the-task-errored")
					verifReach("allowed-failure")
				}
			}
		}
		plainSuccess := j.Completed && !j.Canceled && j.LastError == nil
		if plainSuccess {
			verifReach("verdict.success")
			verifAssert(allGood, "C08.success-verdict-only-if-every-task-ran-ok")
		}
		if anyHardFailure {
			verifReach("verdict.failure")
			verifAssert(j.LastError != nil || j.Canceled, "C08.task-failure-fails-the-job")
			if !cont {
				verifReach("fail-fast")
			}
		}
		if allGood {
			verifAssert(plainSuccess || c.cancelAcked || c.cancelled, "C08.all-tasks-ok-means-success")
		}
		// allow_failure neither fails the job nor blocks dependents
		if c.tasks["a"].failed && afA && !c.cancelled && bAfterA {
			verifAssert(c.tasks["b"].runs == 1, "C08.allowed-failure-does-not-block-dependents")
		}
		if c.tasks["a"].failed && !afA && bAfterA {
			verifAssert(c.tasks["b"].runs == 0, "C08.dependents-of-a-failure-never-run")
		}
		if cont && !c.externalCancel && !bAfterA {
			verifAssert(c.tasks["a"].runs == 1 && c.tasks["b"].runs == 1, "C08.continue-runs-independent-tasks-to-completion")
		}
		// C04: an acknowledged cancel that cut something short is reported as canceled
		if c.cancelAcked {
			verifReach("cancel-acknowledged")
			// the literal property: whatever the tasks did with the stop, and however late it landed
			verifAssert(j.Canceled, "C04.acknowledged-cancel-ends-reported-as-canceled")
		}
	})
	verifReach("end")
}
