package prunner

// C05 / C15 step obligation: one real ScheduleAsync from an ARBITRARY state of running, waiting,
// finished and canceled jobs (not a state reached by a short history), for every configuration.
// The states are exactly those that satisfy the representation invariants which the BMC asserts
// after every event (wait list = live waiting jobs in acceptance order; a waiting job either has a
// pending timer or the pipeline is full; under an unchanged definition running <= concurrency), so
// every reachable state of up to N jobs is included whatever the length of the history behind it.

import (
	"time"

	"github.com/Flowpack/prunner/taskctl"
)

// VerifC05Step
func VerifC05Step() {
	N := verifBound("N", 4)
	verifIntercept("github.com/gofrs/uuid.NewV4", vNewV4)
	verifIntercept("time.AfterFunc", vAfterFunc)
	verifIntercept("(*time.Timer).Stop", vTimerStop)
	verifIntercept("(*github.com/Flowpack/prunner/taskctl.Scheduler).Schedule", vScheduleStub)
	w := &vWorld{envAtRunner: map[*PipelineJob]map[string]string{}}
	vW = w
	w.defs = vMakeDefs("def", 0)
	def := w.defs.Pipelines[vP]
	r := vBareRunner(w.defs, nil, nil)
	r.createTaskRunner = func(j *PipelineJob) taskctl.Runner { return &vRunner{job: j} }
	w.r = r
	running, waiting := 0, 0
	base := int64(1000)
	for i := 0; i < N; i++ {
		// 0 absent, 1 running, 2 waiting with pending timer, 3 waiting without timer, 4 finished, 5 canceled
		kind := verifChoose("job.state", 6)
		if kind == 0 {
			continue
		}
		w.uuidN++
		j := &PipelineJob{ID: vID(40 + i), Pipeline: vP, Created: verifTime(base + int64(i)), StartDelay: def.StartDelay, Tasks: buildJobTasks(def.Tasks)}
		vj := &vJob{job: j, id: j.ID, seq: len(w.jobs), pipeline: vP, name: vJobName(len(w.jobs)), spawnIdx: -1, delay: int64(def.StartDelay)}
		switch kind {
		case 1:
			st := verifTime(base + int64(i))
			j.Start = &st
			vj.live = true
			running++
		case 2:
			t := &time.Timer{}
			j.startTimer = t
			vt := &vTimer{t: t, f: func() {}, deadline: 1 << 50, job: vj}
			w.timers = append(w.timers, vt)
			vj.timer = vt
			r.waitListByPipeline[vP] = append(r.waitListByPipeline[vP], j)
			waiting++
		case 3:
			r.waitListByPipeline[vP] = append(r.waitListByPipeline[vP], j)
			waiting++
		case 4:
			st := verifTime(base + int64(i))
			j.Start, j.End, j.Completed = &st, &st, true
		case 5:
			j.Canceled = true
		}
		r.jobsByID[j.ID] = j
		r.jobsByPipeline[vP] = append(r.jobsByPipeline[vP], j)
		w.jobs = append(w.jobs, vj)
		verifEvent("state: " + vj.name + " " + []string{"", "running", "waiting (timer pending)", "waiting (no timer)", "finished", "canceled"}[kind])
	}
	// representation invariants of reachable states (unchanged definition)
	verifAssume(running <= def.Concurrency)
	for _, vj := range w.jobs {
		if vj.waitingLive() {
			if vj.timer != nil {
				verifAssume(def.StartDelay > 0) // pending timers only exist with a start delay
			} else {
				// no pending timer: either its delay is over or there is none; then it only waits while
				// the pipeline is full
				verifAssume(running >= def.Concurrency)
			}
		}
	}
	if def.QueueLimit != nil {
		verifAssume(waiting <= *def.QueueLimit)
	}
	if def.QueueStrategy == 1 {
		verifAssume(waiting <= 1)
	}
	if waiting >= 3 {
		verifReach("three-waiting")
	}
	if running >= 2 {
		verifReach("two-running")
	}
	w.seen = verifSpawnedCount()
	w.doSchedule(false)
	verifReach("end")
}
