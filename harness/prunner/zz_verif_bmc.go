package prunner

// L3 bounded model checking harness for the pipeline runner (DESIGN.md §5, §6).
//
// The real PipelineRunner methods are executed symbolically; goroutines and timers are pending
// activities fired as explicit events; Scheduler.Schedule is replaced by the most general stub
// satisfying the scheduler contract G2 (checked separately at L2). The pipeline configuration
// (concurrency, queue limit, strategy, delay, fail-fast flag) and the clock are symbolic.
//
// Monitors: C01 (concurrency), C02d (start once), C03 (stuck-freedom), C04 (cancel), C05 (admission
// table), C06 (FIFO), C07 (delay lower bound, replace), C15 (listing vs acting), C16 (reload).

import (
	"context"
	"time"

	"github.com/friendsofgo/errors"
	"github.com/gofrs/uuid"
	"github.com/taskctl/taskctl/pkg/scheduler"
	"github.com/taskctl/taskctl/pkg/task"
	"github.com/taskctl/taskctl/pkg/variables"

	"github.com/Flowpack/prunner/definition"
	"github.com/Flowpack/prunner/taskctl"
)

type vTimer struct {
	t        *time.Timer
	f        func()
	deadline int64
	stopped  bool
	stopAt   int64
	fired    bool
	job      *vJob
}

type vJob struct {
	job      *PipelineJob
	id       uuid.UUID
	seq      int
	pipeline string
	name     string
	acceptT  int64
	delay    int64
	defGen   int
	vars     int
	spawns   int
	live     bool
	returned bool
	sched    *taskctl.Scheduler
	spawnIdx int
	timer    *vTimer

	cancelAck        bool
	cancelAckWaiting bool
	cancelDelivered  bool
	cancelGos        int
	replaced         bool
	taskErrored      bool
	graphChecked     bool
	taskCanceledReported bool
	removed              bool // no longer reported: a save removed it (retention / pipeline no longer defined)
}

type vCancelGo struct {
	idx  int
	done bool
}

type vWorld struct {
	r         *PipelineRunner
	defs      *definition.PipelinesDef
	jobs      []*vJob
	timers    []*vTimer
	cancelGos []*vCancelGo
	otherGos  []*vCancelGo
	seen      int
	reloads   int
	defGen    int
	uuidN     int
	evStart   int64
	retResult error
	events    int
	envAtRunner map[*PipelineJob]map[string]string
	undefined   bool // the focal pipeline is currently not defined
	undefs      int
	saves       int
	out         *vOutputStore
}

var vW *vWorld

var vTaskErr = errors.New("task failed: exit status 1")

// ---- environment stubs written in Go (interpreted symbolically like everything else) ----

type vRunner struct {
	job          *PipelineJob
	onTaskChange func(t *task.Task)
	cancelled    bool
}

func (m *vRunner) SetOnTaskChange(f func(t *task.Task)) { m.onTaskChange = f }
func (m *vRunner) Run(t *task.Task) error {
	verifFail("harness: Runner.Run must not be reached at L3 (Schedule is stubbed)")
	return nil
}
func (m *vRunner) Cancel() {
	m.cancelled = true
	if vj := vW.byJob(m.job); vj != nil {
		vj.cancelDelivered = true
	}
}
func (m *vRunner) Finish() {}

func vNowNs() int64 { return verifTimeNs(time.Now()) }

func vNewV4() (uuid.UUID, error) {
	vW.uuidN++
	var u uuid.UUID
	u[0] = 0xA0
	u[15] = byte(vW.uuidN)
	return u, nil
}

func vAfterFunc(d time.Duration, f func()) *time.Timer {
	t := &time.Timer{}
	now := vNowNs()
	vt := &vTimer{t: t, f: f, deadline: now + int64(d)}
	vW.timers = append(vW.timers, vt)
	return t
}

func vTimerStop(t *time.Timer) bool {
	for _, vt := range vW.timers {
		if vt.t == t {
			if vt.fired || vt.stopped {
				return false
			}
			vt.stopped = true
			vt.stopAt = vNowNs()
			return true
		}
	}
	verifFail("harness: Stop on unknown timer")
	return false
}

// vScheduleStub is the most general Scheduler.Schedule allowed by contract G2: it returns the
// result chosen by the RET event. It also carries the C16 monitor (what the job was started with).
func vScheduleStub(s *taskctl.Scheduler, g *scheduler.ExecutionGraph) error {
	vj := vW.bySched(s)
	if vj == nil {
		verifFail("harness: Schedule on unknown scheduler")
		return nil
	}
	vCheckGraphAgainstSnapshot(vj, g)
	return vW.retResult
}

func (w *vWorld) byJob(j *PipelineJob) *vJob {
	for _, vj := range w.jobs {
		if vj.job == j {
			return vj
		}
	}
	return nil
}

func (w *vWorld) bySched(s *taskctl.Scheduler) *vJob {
	for _, vj := range w.jobs {
		if vj.sched == s {
			return vj
		}
	}
	return nil
}

// ---- definitions ----

const vP = "p"

func vTasks(gen int) map[string]definition.TaskDef {
	switch gen {
	case 0:
		return map[string]definition.TaskDef{
			"a": {Script: []string{"echo a0"}},
			"b": {Script: []string{"echo b0"}, DependsOn: []string{"a"}, Env: map[string]string{"T": "b0"}},
			"c": {Script: []string{"echo c0"}},
		}
	default:
		// a reload rewires, adds and changes tasks
		return map[string]definition.TaskDef{
			"a": {Script: []string{"echo a1"}, DependsOn: []string{"c"}},
			"c": {Script: []string{"echo c1"}, AllowFailure: true},
		}
	}
}

func vEnv(gen int) map[string]string {
	if gen == 0 {
		return map[string]string{"E": "e0"}
	}
	return map[string]string{"E": "e1", "F": "f1"}
}

func vMakeDef(tag string, gen int) definition.PipelineDef {
	c := verifInt(tag + ".concurrency")
	l := verifInt(tag + ".queue_limit")
	strat := verifInt(tag + ".strategy")
	d := verifInt64(tag + ".start_delay")
	verifAssume(strat == 0 || strat == 1)
	verifAssume(d < 1<<61)
	def := definition.PipelineDef{
		Concurrency:                      c,
		QueueStrategy:                    definition.QueueStrategy(strat),
		StartDelay:                       time.Duration(d),
		ContinueRunningTasksAfterFailure: verifBool(tag + ".continue_after_failure"),
		Env:                              vEnv(gen),
		Tasks:                            vTasks(gen),
	}
	if verifBool(tag + ".has_queue_limit") {
		def.QueueLimit = &l
	}
	return def
}

func vMakeDefs(tag string, gen int) *definition.PipelinesDef {
	defs := &definition.PipelinesDef{Pipelines: map[string]definition.PipelineDef{
		vP: vMakeDef(tag, gen),
	}}
	// only what the real validator accepts
	verifAssume(defs.Validate() == nil)
	return defs
}

// ---- ghost helpers ----

func (vj *vJob) waitingLive() bool {
	return vj.job.Start == nil && !vj.job.Canceled && !vj.removed
}

func (w *vWorld) liveCount() int {
	n := 0
	for _, vj := range w.jobs {
		if vj.live {
			n++
		}
	}
	return n
}

func (w *vWorld) waitingJobs() []*vJob {
	var out []*vJob
	for _, vj := range w.jobs {
		if vj.waitingLive() {
			out = append(out, vj)
		}
	}
	return out
}

// vCheckTasksAtAccept: the task list a job reports is the snapshot of the definition in force when it
// was accepted - whatever else happened to the queue (C16; the graph handed to the scheduler is
// compared again when the job starts).
func vCheckTasksAtAccept(vj *vJob) {
	want := vTasks(vj.defGen)
	got := vj.job.Tasks
	verifAssert(len(got) == len(want), "C16.tasks-as-accepted.count")
	for _, jt := range got {
		td, ok := want[jt.Name]
		verifAssert(ok, "C16.tasks-as-accepted.name")
		if !ok {
			continue
		}
		verifAssert(jt.AllowFailure == td.AllowFailure, "C16.tasks-as-accepted.allow_failure")
		verifAssert(len(jt.Script) == len(td.Script), "C16.tasks-as-accepted.script")
		for i := range td.Script {
			if i < len(jt.Script) {
				verifAssert(jt.Script[i] == td.Script[i], "C16.tasks-as-accepted.script")
			}
		}
		verifAssert(len(jt.DependsOn) == len(td.DependsOn), "C16.tasks-as-accepted.depends_on")
		verifAssert(len(jt.Env) == len(td.Env), "C16.tasks-as-accepted.task_env")
	}
}

func vCheckGraphAgainstSnapshot(vj *vJob, g *scheduler.ExecutionGraph) {
	if vj.graphChecked {
		return
	}
	vj.graphChecked = true
	want := vTasks(vj.defGen)
	nodes := g.Nodes()
	verifAssert(len(nodes) == len(want), "C16.tasks-as-accepted.count")
	for name, td := range want {
		st, ok := nodes[name]
		verifAssert(ok, "C16.tasks-as-accepted.name")
		if !ok {
			continue
		}
		verifAssert(st.AllowFailure == td.AllowFailure && st.Task.AllowFailure == td.AllowFailure, "C16.tasks-as-accepted.allow_failure")
		verifAssert(len(st.Task.Commands) == len(td.Script), "C16.tasks-as-accepted.script")
		for i := range td.Script {
			if i < len(st.Task.Commands) {
				verifAssert(st.Task.Commands[i] == td.Script[i], "C16.tasks-as-accepted.script")
			}
		}
		verifAssert(len(st.DependsOn) == len(td.DependsOn), "C16.tasks-as-accepted.depends_on")
		for i := range td.DependsOn {
			if i < len(st.DependsOn) {
				verifAssert(st.DependsOn[i] == td.DependsOn[i], "C16.tasks-as-accepted.depends_on")
			}
		}
		env := st.Task.Env.Map()
		verifAssert(len(env) == len(td.Env), "C16.tasks-as-accepted.task_env")
		for k, v := range td.Env {
			got, ok := env[k]
			verifAssert(ok && got == v, "C16.tasks-as-accepted.task_env")
		}
		id, _ := st.Variables.Get(taskctl.JobIDVariableName).(string)
		verifAssert(id == vj.id.String(), "C18.job-identity-variable")
	}
	wantEnv := vEnv(vj.defGen)
	gotEnv := vW.envAtRunner[vj.job]
	verifAssert(len(gotEnv) == len(wantEnv), "C16.env-as-accepted")
	for k, v := range wantEnv {
		verifAssert(gotEnv[k] == v, "C16.env-as-accepted")
	}
}

// ---- world set-up ----

func vNewWorld() *vWorld {
	w := &vWorld{envAtRunner: map[*PipelineJob]map[string]string{}}
	vW = w
	verifIntercept("github.com/gofrs/uuid.NewV4", vNewV4)
	verifIntercept("time.AfterFunc", vAfterFunc)
	verifIntercept("(*time.Timer).Stop", vTimerStop)
	verifIntercept("(*github.com/Flowpack/prunner/taskctl.Scheduler).Schedule", vScheduleStub)
	w.defs = vMakeDefs("def", 0)
	r, err := NewPipelineRunner(context.Background(), w.defs, func(j *PipelineJob) taskctl.Runner {
		w.envAtRunner[j] = j.Env
		return &vRunner{job: j}
	}, nil, nil)
	if err != nil {
		verifFail("harness: NewPipelineRunner failed")
	}
	w.r = r
	return w
}

// ---- events ----

type vEvent struct {
	kind int // 0 SCHED plain, 1 SCHED reserved-var, 2 CANCEL, 3 RET, 4 CGO, 5 TIMER, 6 TASKERR, 7 RELOAD, 8 OTHERGO
	idx  int
	sub  int
}

func (w *vWorld) enabled(maxJobs, maxReloads int) []vEvent {
	var evs []vEvent
	if len(w.jobs) < maxJobs && !w.undefined {
		evs = append(evs, vEvent{kind: 0})
		if verifBound("reservedvar", 1) == 1 {
			evs = append(evs, vEvent{kind: 1})
		}
	}
	for i, vj := range w.jobs {
		if verifBound("cancel", 1) == 1 {
			evs = append(evs, vEvent{kind: 2, idx: i})
		}
		if vj.live {
			if vj.taskErrored {
				evs = append(evs, vEvent{kind: 3, idx: i, sub: 2})
			} else {
				evs = append(evs, vEvent{kind: 3, idx: i, sub: 0})
				if vj.cancelDelivered {
					evs = append(evs, vEvent{kind: 3, idx: i, sub: 1})
					if !vj.taskCanceledReported && verifBound("taskcancel", 1) == 1 {
						evs = append(evs, vEvent{kind: 9, idx: i})
					}
				}
				if verifBound("taskerr", 1) == 1 {
					evs = append(evs, vEvent{kind: 6, idx: i})
				}
			}
		}
	}
	for i, c := range w.cancelGos {
		if !c.done {
			evs = append(evs, vEvent{kind: 4, idx: i})
		}
	}
	for i, c := range w.otherGos {
		if !c.done {
			evs = append(evs, vEvent{kind: 8, idx: i})
		}
	}
	for i, t := range w.timers {
		if !t.fired {
			evs = append(evs, vEvent{kind: 5, idx: i})
		}
	}
	if w.reloads < maxReloads && !w.undefined {
		evs = append(evs, vEvent{kind: 7})
	}
	// the focal pipeline disappears from the definitions (UNDEF) and comes back unchanged (REDEF); SAVE
	// is the periodic SaveToStore, which purges jobs of pipelines that are not defined
	if verifBound("undef", 0) == 1 {
		if !w.undefined && w.undefs < 1 {
			evs = append(evs, vEvent{kind: 10})
		}
		if w.undefined {
			evs = append(evs, vEvent{kind: 11})
		}
		if w.saves < verifBound("saves", 1) {
			evs = append(evs, vEvent{kind: 12})
		}
	}
	return evs
}

func (w *vWorld) listed() PipelineInfo {
	for _, pi := range w.r.ListPipelines() {
		if pi.Pipeline == vP {
			return pi
		}
	}
	verifFail("C15.pipeline-listed")
	return PipelineInfo{}
}

func vContains(s, sub string) bool {
	for i := 0; i+len(sub) <= len(s); i++ {
		if s[i:i+len(sub)] == sub {
			return true
		}
	}
	return false
}

func vJobName(i int) string {
	return "j" + string(rune('1'+i))
}

func (w *vWorld) doSchedule(reserved bool) {
	def := w.defs.Pipelines[vP]
	r := w.liveCount()
	waiting := w.waitingJobs()
	nw := len(waiting)
	var newest *vJob
	if nw > 0 {
		newest = waiting[nw-1]
	}
	// reference decision table, written from the property text
	const (
		xStart = iota
		xNoQueue
		xReplace
		xFull
		xAppend
	)
	expect := xAppend
	if r < def.Concurrency && def.StartDelay == 0 {
		expect = xStart
	} else if def.QueueLimit != nil && *def.QueueLimit == 0 {
		expect = xNoQueue
	} else if def.QueueStrategy == definition.QueueStrategyReplace && nw > 0 {
		expect = xReplace
	} else if def.QueueLimit != nil && nw >= *def.QueueLimit {
		expect = xFull
	}
	listed := w.listed()
	verifAssert(listed.Running == (r > 0), "C15.running-flag")

	nJobsByID := len(w.r.jobsByID)
	nTimers := len(w.timers)
	nSpawned := verifSpawnedCount()

	opts := ScheduleOpts{User: "u"}
	kind := "plain"
	if reserved {
		opts.Variables = map[string]interface{}{taskctl.JobIDVariableName: "forged"}
		kind = "reserved"
	}
	verifEvent("SCHED " + kind)
	acceptT := vNowNs()
	w.evStart = acceptT
	job, err := w.r.ScheduleAsync(vP, opts)

	verifAssert(listed.Schedulable == (err == nil), "C15.schedulable-iff-accepted")
	switch expect {
	case xNoQueue:
		verifReach("sched.reject-noqueue")
		verifAssert(err == errNoQueue, "C05.table.reject-no-queue")
	case xFull:
		verifReach("sched.reject-full")
		verifAssert(err == errQueueFull, "C05.table.reject-full")
	default:
		verifAssert(err == nil && job != nil, "C05.table.accept")
	}
	if err != nil || job == nil {
		verifEvent("  -> rejected")
		verifAssert(len(w.r.jobsByID) == nJobsByID && len(w.timers) == nTimers && verifSpawnedCount() == nSpawned && len(w.waitingJobs()) == nw, "C05.rejected-leaves-no-trace")
		return
	}
	vj := &vJob{job: job, id: job.ID, seq: len(w.jobs), pipeline: vP, name: vJobName(len(w.jobs)), acceptT: acceptT, delay: int64(def.StartDelay), defGen: w.defGen, spawnIdx: -1}
	if reserved {
		vj.vars = 1
	}
	w.jobs = append(w.jobs, vj)
	vCheckTasksAtAccept(vj)
	if len(w.timers) > nTimers {
		vj.timer = w.timers[len(w.timers)-1]
		vj.timer.job = vj
		verifAssert(len(w.timers) == nTimers+1, "C07.one-timer-per-job")
	}
	// a job accepted with a start delay gets a wake-up at acceptance + delay (and only then):
	// without it, it would either wait for an unrelated event or start as soon as a slot is free
	verifAssert(verifImplies(def.StartDelay > 0, vj.timer != nil), "C07.delayed-job-has-a-timer")
	if vj.timer != nil {
		verifAssert(vj.timer.deadline >= acceptT+int64(def.StartDelay), "C07.timer-not-before-delay")
	}
	w.scanSpawned()
	switch expect {
	case xStart:
		verifReach("sched.start")
		verifEvent("  -> " + vj.name + " started")
		if !reserved {
			verifAssert(vj.live && job.Start != nil, "C05.table.start-now")
		} else {
			verifAssert(!vj.live && job.Canceled && job.LastError != nil, "C02.unstartable-job-reported-canceled-with-error")
		}
	case xReplace:
		verifReach("sched.replace")
		verifEvent("  -> " + vj.name + " replaces " + newest.name)
		newest.replaced = true
		verifAssert(newest.job.Canceled && newest.job.Start == nil, "C07.replaced-job-reported-canceled")
		verifAssert(!vj.live && vj.waitingLive(), "C05.table.replace-queues-new-job")
		verifAssert(len(w.waitingJobs()) == nw, "C05.replace-keeps-queue-length")
	case xAppend:
		verifReach("sched.append")
		verifEvent("  -> " + vj.name + " queued")
		verifAssert(!vj.live && vj.waitingLive(), "C05.table.append-queues-new-job")
		verifAssert(len(w.waitingJobs()) == nw+1, "C05.append-grows-queue-by-one")
	}
	if w.reloads == 0 && def.QueueLimit != nil {
		verifAssert(len(w.waitingJobs()) <= *def.QueueLimit, "C05.waiting-never-exceeds-queue-limit")
	}
	if w.reloads == 0 && def.QueueStrategy == definition.QueueStrategyReplace {
		verifAssert(len(w.waitingJobs()) <= 1, "C05.at-most-one-waiting-under-replace")
	}
	if job.StartDelay > 0 {
		verifReach("sched.delayed")
	}
}

func (w *vWorld) doCancel(vj *vJob) {
	j := vj.job
	wasCanceled, wasCompleted, wasWaiting := j.Canceled, j.Completed, j.Start == nil
	nSpawned := verifSpawnedCount()
	verifEvent("CANCEL " + vj.name)
	err := w.r.CancelJob(vj.id)
	w.scanSpawned()
	newGos := verifSpawnedCount() - nSpawned
	switch {
	case wasCanceled:
		verifReach("cancel.already-canceled")
		verifEvent("  (already canceled)")
		verifAssert(err == nil && newGos == 0, "C04.cancel-canceled-is-noop")
	case wasCompleted:
		verifReach("cancel.completed")
		verifEvent("  (completed)")
		verifAssert(err != nil && newGos == 0 && !j.Canceled, "C04.finished-job-unchanged")
	case wasWaiting:
		verifReach("cancel.waiting")
		verifEvent("  (waiting)")
		verifAssert(err == nil && j.Canceled, "C04.cancel-waiting-acknowledged")
		for i := range j.Tasks {
			verifAssert(j.Tasks[i].Canceled, "C04.cancel-waiting-marks-tasks")
		}
		vj.cancelAck = true
		vj.cancelAckWaiting = true
	default:
		verifReach("cancel.running")
		verifEvent("  (running)")
		verifAssert(err == nil, "C04.cancel-running-acknowledged")
		verifAssert(newGos == 1, "C04.cancel-running-delivers-stop")
		vj.cancelAck = true
	}
}

func (w *vWorld) doRet(vj *vJob, sub int) {
	switch sub {
	case 0:
		w.retResult = nil
		verifEvent("RET " + vj.name + " nil")
	case 1:
		w.retResult = errors.Wrap(context.Canceled, "task canceled")
		verifEvent("RET " + vj.name + " canceled")
	default:
		w.retResult = vTaskErr
		verifEvent("RET " + vj.name + " task-error")
	}
	vj.live = false
	vj.returned = true
	verifRunSpawned(vj.spawnIdx)
	w.scanSpawned()
	j := vj.job
	verifAssert(j.Completed && j.End != nil, "C01.returned-job-reported-completed")
	if sub == 1 {
		verifAssert(j.Canceled, "C04.canceled-run-reported-canceled")
	}
	if vj.cancelAck {
		// the literal property: an acknowledged cancel of an unfinished job ends reported as canceled,
		// whatever the tasks made of the stop (exit status, success) and however late it landed
		verifAssert(j.Canceled, "C04.acknowledged-cancel-ends-reported-as-canceled")
	}
	if sub == 2 {
		verifAssert(j.LastError != nil, "C08.failed-run-reports-error")
	}
	verifAssert(j.sched == nil, "C01.scheduler-released")
}

func (w *vWorld) doTaskErr(vj *vJob) {
	t := task.FromCommands("echo")
	t.Name = vj.job.Tasks[0].Name
	t.Variables = variables.FromMap(map[string]string{taskctl.JobIDVariableName: vj.id.String()})
	t.Start = time.Now()
	t.Errored = true
	t.Error = vTaskErr
	t.ExitCode = 1
	nSpawned := verifSpawnedCount()
	verifEvent("TASKERR " + vj.name)
	w.r.HandleTaskChange(t)
	w.scanSpawned()
	vj.taskErrored = true
	def, ok := w.r.defs.Pipelines[vP]
	if ok && !def.ContinueRunningTasksAfterFailure && !vj.job.Canceled {
		verifReach("taskerr.failfast")
		verifAssert(verifSpawnedCount() == nSpawned+1, "C08.fail-fast-stops-other-tasks")
	} else {
		verifAssert(verifSpawnedCount() == nSpawned, "C08.continue-does-not-cancel")
	}
	_ = w.r.ReadJob(vj.id, func(j *PipelineJob) {
		jt := j.Tasks.ByName(t.Name)
		verifAssert(jt != nil && jt.Errored && jt.Error != nil, "C08.task-failure-recorded")
	})
}

// doTaskCanceled: one task of a job whose stop was delivered reports context.Canceled while the
// scheduler (and possibly sibling tasks) are still running.
func (w *vWorld) doTaskCanceled(vj *vJob) {
	t := task.FromCommands("echo")
	t.Name = vj.job.Tasks[0].Name
	t.Variables = variables.FromMap(map[string]string{taskctl.JobIDVariableName: vj.id.String()})
	t.Start = time.Now()
	t.Errored = true
	t.Error = context.Canceled
	verifEvent("TASKCANCELED " + vj.name)
	nSpawned := verifSpawnedCount()
	w.r.HandleTaskChange(t)
	w.scanSpawned()
	vj.taskCanceledReported = true
	verifAssert(verifSpawnedCount() == nSpawned, "C04.canceled-task-report-starts-nothing")
}

func (w *vWorld) doTimer(vt *vTimer) {
	now := vNowNs()
	// timer contract: the callback runs no earlier than its deadline; after a successful Stop it
	// does not run at all (Stop returned true only if it was not yet fired)
	verifAssume(now >= vt.deadline)
	verifAssume(!vt.stopped)
	w.evStart = now
	vt.fired = true
	name := "?"
	if vt.job != nil {
		name = vt.job.name
	}
	verifEvent("TIMER " + name)
	vt.f()
	w.scanSpawned()
}

func (w *vWorld) doReload() {
	w.reloads++
	w.defGen++
	// snapshot of all job fields that a reload must not touch
	type snap struct {
		completed, canceled bool
		start, end          *time.Time
		ntasks              int
		delay               time.Duration
	}
	var before []snap
	for _, vj := range w.jobs {
		before = append(before, snap{vj.job.Completed, vj.job.Canceled, vj.job.Start, vj.job.End, len(vj.job.Tasks), vj.job.StartDelay})
	}
	nSpawned := verifSpawnedCount()
	nWaiting := len(w.waitingJobs())
	w.defs = vMakeDefs("def'", w.defGen)
	verifEvent("RELOAD")
	w.r.ReplaceDefinitions(w.defs)
	w.scanSpawned()
	verifReach("reload")
	verifAssert(verifSpawnedCount() == nSpawned, "C16.reload-starts-or-cancels-nothing")
	verifAssert(len(w.waitingJobs()) == nWaiting, "C16.reload-keeps-queue")
	for i, vj := range w.jobs {
		b := before[i]
		verifAssert(vj.job.Completed == b.completed && vj.job.Canceled == b.canceled && vj.job.Start == b.start && vj.job.End == b.end && len(vj.job.Tasks) == b.ntasks && vj.job.StartDelay == b.delay, "C16.reload-leaves-jobs-untouched")
	}
}

// doUndef: a reload whose definitions no longer contain the focal pipeline.
func (w *vWorld) doUndef() {
	w.undefined = true
	w.undefs++
	w.reloads++ // monitors that speak of an unchanged definition are off from here on
	verifEvent("UNDEF")
	nSpawned := verifSpawnedCount()
	w.r.ReplaceDefinitions(&definition.PipelinesDef{Pipelines: map[string]definition.PipelineDef{}})
	w.scanSpawned()
	verifAssert(verifSpawnedCount() == nSpawned, "C16.reload-starts-or-cancels-nothing")
	verifReach("undef")
}

// doRedef: the pipeline is defined again, exactly as before.
func (w *vWorld) doRedef() {
	w.undefined = false
	verifEvent("REDEF")
	nSpawned := verifSpawnedCount()
	w.r.ReplaceDefinitions(w.defs)
	w.scanSpawned()
	verifAssert(verifSpawnedCount() == nSpawned, "C16.reload-starts-or-cancels-nothing")
	verifReach("redef")
}

// doSave: the real SaveToStore with recording stores. No retention is configured in these runs, so
// the only legitimate removal is the purge of jobs whose pipeline is not defined (C12).
func (w *vWorld) doSave() {
	w.saves++
	if w.r.store == nil {
		w.out = &vOutputStore{}
		w.r.store = &vStore{}
		w.r.outputStore = w.out
	}
	verifEvent("SAVE")
	w.r.SaveToStore()
	w.scanSpawned()
	for _, vj := range w.jobs {
		if vj.removed {
			continue
		}
		found := false
		_ = w.r.ReadJob(vj.id, func(x *PipelineJob) { found = true })
		if w.undefined {
			// jobs of a pipeline that is no longer defined are purged; a job that still executes may stay
			// until it has finished - the save after that removes it
			verifAssert(!found || vj.live, "C12.undefined-pipeline-purged")
			if found && vj.live {
				verifReach("save.kept-an-executing-job")
			}
			if !found && vj.returned {
				verifReach("save.purged-a-job-that-had-been-kept")
			}
		}
		if !found {
			vj.removed = true
			verifEvent("  removed " + vj.name)
			verifAssert(w.undefined, "C12.nothing-removed-without-retention-settings")
			verifReach("save.purged-a-job")
			if vj.live {
				verifReach("save.purged-a-running-job")
			}
		}
	}
}

// scanSpawned classifies goroutines created since the last scan and runs the spawn monitors.
func (w *vWorld) scanSpawned() {
	n := verifSpawnedCount()
	spawnedForP := false
	for i := w.seen; i < n; i++ {
		var pj *PipelineJob
		tag := verifSpawnedTag(i)
		isSched := vContains(tag, "startJob")
		isCancel := vContains(tag, "cancelJobInternal")
		for _, v := range verifSpawnedValues(i) {
			switch x := v.(type) {
			case *PipelineJob:
				pj = x
			case **PipelineJob:
				pj = *x
			}
		}
		switch {
		case !isCancel && pj != nil && (isSched || true):
			// a goroutine that carries a job and is not the stop delivery is the job's scheduler
			// goroutine, whatever the closure is called after a refactoring
			vj := w.byJob(pj)
			if vj == nil {
				verifFail("harness: goroutine for unknown job")
				continue
			}
			w.onSpawn(vj, i)
			spawnedForP = true
		case isCancel:
			w.cancelGos = append(w.cancelGos, &vCancelGo{idx: i})
		default:
			w.otherGos = append(w.otherGos, &vCancelGo{idx: i})
		}
	}
	w.seen = n
	if spawnedForP {
		def, ok := w.r.defs.Pipelines[vP]
		if ok {
			verifAssert(w.liveCount() <= def.Concurrency, "C01.live-jobs-within-concurrency")
			if def.Concurrency > 1 && w.liveCount() > 1 {
				verifReach("spawn.concurrent>1")
			}
		}
	}
}

func (w *vWorld) onSpawn(vj *vJob, idx int) {
	vj.spawns++
	verifAssert(vj.spawns <= 1, "C02.job-started-at-most-once")
	if vj.spawns > 1 {
		return
	}
	vj.live = true
	vj.spawnIdx = idx
	vj.sched = vj.job.sched
	verifEvent("  spawn " + vj.name)
	verifAssert(!vj.cancelAckWaiting, "C04.canceled-waiting-job-never-starts")
	verifAssert(!vj.replaced, "C07.replaced-job-never-starts")
	verifAssert(!vj.removed, "C15.a-job-that-is-no-longer-reported-never-starts")
	verifAssert(vj.job.Start != nil && !vj.job.Completed, "C01.started-job-reported-running")
	// C07a: not before accepted + delay (event start instant is a lower bound of the start instant)
	if w.reloads > 0 && vj.defGen < w.defGen {
		// a job accepted before a reload keeps the start delay it was accepted with (C16); asserted
		// under its own name only: a failed assertion is assumed afterwards and would mask a twin
		verifAssert(w.evStart >= vj.acceptT+vj.delay, "C16.start-delay-as-accepted")
		verifReach("spawn.after-reload")
	} else {
		verifAssert(w.evStart >= vj.acceptT+vj.delay, "C07.start-not-before-delay")
	}
	if vj.delay > 0 {
		verifReach("spawn.delayed-job")
	}
	// C06: FIFO among waiting jobs under an unchanged definition
	if w.reloads == 0 {
		olderWaiting := false
		for _, o := range w.jobs {
			if o.seq < vj.seq && o.waitingLive() {
				olderWaiting = true
			}
		}
		verifAssert(!olderWaiting, "C06.fifo-start-order")
		if vj.seq >= 2 {
			verifReach("spawn.third-or-later-job")
		}
	}
}

// afterEvent: invariants that must hold in every quiescent state.
func (w *vWorld) afterEvent() {
	def, defined := w.r.defs.Pipelines[vP]
	live := w.liveCount()
	running := 0
	for _, vj := range w.jobs {
		j := vj.job
		// C01: slot accounting matches the goroutine that actually exists
		if vj.live {
			verifAssert(j.isRunning(), "C01.slot-held-until-scheduler-returned")
		}
		if j.isRunning() {
			running++
			verifAssert(vj.live, "C01.no-ghost-running-job")
		}
		// C15c: every accepted job is reported
		found := false
		_ = w.r.ReadJob(vj.id, func(x *PipelineJob) { found = x == j })
		if vj.removed {
			verifAssert(!found, "C12.removed-job-stays-removed")
		} else {
			verifAssert(found, "C15.accepted-job-reported-by-id")
		}
		// C15e: time order
		if j.Start != nil {
			verifAssert(!j.Start.Before(j.Created), "C15.created<=start")
			if j.End != nil {
				verifAssert(!j.End.Before(*j.Start), "C15.start<=end")
			}
		}
		if j.Completed {
			verifAssert(!vj.live, "C01.completed-only-after-scheduler-returned")
		}
	}
	nListed := 0
	w.r.IterateJobs(func(x *PipelineJob) { nListed++ })
	nReported := 0
	for _, vj := range w.jobs {
		if !vj.removed {
			nReported++
		}
	}
	verifAssert(nListed == nReported, "C15.job-list-complete")
	if defined {
		li := w.listed()
		verifAssert(li.Running == (running > 0), "C15.running-flag")
	}

	// C03/C06 (representation): the wait list holds exactly the live waiting jobs, in acceptance order.
	// A job that waits but is not on the list can never be dequeued; a list out of acceptance order
	// starts jobs out of order (the dequeue pops the front).
	if defined {
		wl := w.r.waitListByPipeline[vP]
		lastSeq := -1
		inOrder := true
		for _, j := range wl {
			vj := w.byJob(j)
			if vj == nil {
				continue
			}
			if vj.seq < lastSeq {
				inOrder = false
			}
			lastSeq = vj.seq
		}
		if w.reloads == 0 {
			verifAssert(inOrder, "C06.queue-keeps-acceptance-order")
		}
		for _, j := range wl {
			// a queued entry that already runs would be started a second time by the next dequeue
			verifAssert(j.Start == nil, "C01.queued-job-not-already-started")
			verifAssert(j.Start == nil && !j.Canceled && !j.Completed, "C05.only-waiting-jobs-occupy-queue-slots")
		}
		for _, vj := range w.waitingJobs() {
			on := false
			for _, j := range wl {
				if j == vj.job {
					on = true
				}
			}
			verifAssert(on, "C03.waiting-job-is-on-the-wait-list")
		}
	}

	// C03: stuck-freedom. The oldest live waiting job must have something pending that will start it.
	waiting := w.waitingJobs()
	if len(waiting) > 0 && defined && w.undefs == 0 {
		h := waiting[0]
		// the wake-up that counts is the timer the job holds NOW (a reload may legitimately re-arm it);
		// a job that holds no handle any more has had its delay (timerDone)
		ht := h.timer
		if cur := h.job.startTimer; cur != nil {
			for _, vt := range w.timers {
				if vt.t == cur {
					ht = vt
				}
			}
		}
		timerPending := ht != nil && !ht.fired && !ht.stopped
		timerDone := ht == nil || ht.fired
		verifAssert(live > 0 || timerPending, "C03.waiting-job-has-a-pending-wakeup")
		if w.reloads == 0 {
			// under an unchanged definition: free slot and delay over => it would have been started
			verifAssert(!(timerDone && live < def.Concurrency), "C03.eligible-head-starts-at-once")
			verifAssert(timerDone || timerPending, "C03.delayed-head-keeps-its-timer")
			// C06: a request arriving now must not overtake the queue. ScheduleAsync starts a newcomer
			// whenever the runner's own count of running jobs is below the concurrency, so while a job
			// whose delay is over waits, that count must say "full".
			if timerDone {
				verifAssert(running >= def.Concurrency, "C06.newcomer-cannot-overtake-a-ready-waiting-job")
			}
		}
		verifReach("state.waiting")
		if len(waiting) >= 3 {
			verifReach("state.three-waiting")
		}
	}
}

// vPersistJob: what SaveToStore writes for a job, reduced to what events change (flags, presence of
// instants and errors, task statuses).
type vPersistJob struct {
	id                                        uuid.UUID
	completed, canceled, started, ended, errd bool
	tasks                                     string
}

func (w *vWorld) persistView() []vPersistJob {
	var out []vPersistJob
	for _, vj := range w.jobs {
		j := vj.job
		if _, ok := w.r.jobsByID[vj.id]; !ok {
			continue
		}
		pv := vPersistJob{id: vj.id, completed: j.Completed, canceled: j.Canceled, started: j.Start != nil, ended: j.End != nil, errd: j.LastError != nil}
		for _, t := range j.Tasks {
			pv.tasks += t.Name + ":" + t.Status
			if t.Start != nil {
				pv.tasks += "s"
			}
			if t.End != nil {
				pv.tasks += "e"
			}
			if t.Errored {
				pv.tasks += "E"
			}
			if t.Canceled {
				pv.tasks += "C"
			}
			pv.tasks += ";"
		}
		out = append(out, pv)
	}
	return out
}

func vSamePersistView(a, b []vPersistJob) bool {
	if len(a) != len(b) {
		return false
	}
	for i := range a {
		if a[i] != b[i] {
			return false
		}
	}
	return true
}

func (w *vWorld) drainPersistRequest() {
	select {
	case <-w.r.persistRequests:
	default:
	}
}

// VerifBMC explores all histories of up to K events over up to N jobs of one pipeline.
func VerifBMC() {
	K := verifBound("K", 5)
	N := verifBound("N", 4)
	R := verifBound("reloads", 0)
	w := vNewWorld()
	for step := 0; step < K; step++ {
		evs := w.enabled(N, R)
		if len(evs) == 0 {
			break
		}
		ev := evs[verifChoose("event", len(evs))]
		w.evStart = vNowNs()
		// C11 (persist discipline): take the pending persist request away, remember what a save would
		// write; if the event changes that, it must have asked for a save again
		w.drainPersistRequest()
		viewBefore := w.persistView()
		switch ev.kind {
		case 0:
			w.doSchedule(false)
		case 1:
			w.doSchedule(true)
		case 2:
			w.doCancel(w.jobs[ev.idx])
		case 3:
			w.doRet(w.jobs[ev.idx], ev.sub)
		case 4:
			c := w.cancelGos[ev.idx]
			c.done = true
			verifEvent("CGO")
			verifRunSpawned(c.idx)
			w.scanSpawned()
		case 5:
			w.doTimer(w.timers[ev.idx])
		case 6:
			w.doTaskErr(w.jobs[ev.idx])
		case 7:
			w.doReload()
		case 8:
			c := w.otherGos[ev.idx]
			c.done = true
			verifEvent("GO other")
			verifRunSpawned(c.idx)
			w.scanSpawned()
		case 9:
			w.doTaskCanceled(w.jobs[ev.idx])
		case 10:
			w.doUndef()
		case 11:
			w.doRedef()
		case 12:
			w.doSave()
		}
		if ev.kind != 12 && !vSamePersistView(viewBefore, w.persistView()) {
			verifReach("persist.state-changed")
			verifAssert(len(w.r.persistRequests) > 0, "C11.acknowledged-change-requests-a-save")
		}
		w.afterEvent()
	}
	verifReach("end")
}
