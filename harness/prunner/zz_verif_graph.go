package prunner

// C02a / C15f: graph acceptance and task order, over symbolic task names and every dependency
// relation on n tasks (incl. self-loops and longer cycles).

import (
	"github.com/Flowpack/prunner/definition"
)

// VerifC02Graph: buildJobTasks + buildPipelineGraph accept exactly the acyclic graphs; the task
// list of an acyclic graph is a topological order that does not depend on map iteration order.
func VerifC02Graph() {
	n := verifBound("tasks", 3)
	// symbolic names; their relative (lexicographic) order is case-split up front so that every later
	// comparison is implied by the path condition: sorted[0] < sorted[1] < ... and names[i] is
	// sorted[perm[i]] for a chosen permutation
	sorted := make([]string, n)
	for i := 0; i < n; i++ {
		if verifBound("concretenames", 0) == 1 {
			// one concrete representative per rank; exhaustive for code that only compares names
			// (==, <), which is what the symbolic-name runs with fewer tasks exercise
			sorted[i] = string(rune('a' + i))
			continue
		}
		sorted[i] = verifString("task.name")
		if i > 0 {
			verifAssume(sorted[i-1] < sorted[i])
		}
	}
	names := make([]string, n)
	used := make([]bool, n)
	for i := 0; i < n; i++ {
		var free []int
		for k := 0; k < n; k++ {
			if !used[k] {
				free = append(free, k)
			}
		}
		k := free[0] // alldags: names in rank order (the labelled DAGs already cover every relabelling)
		if verifBound("alldags", 0) != 1 {
			k = free[verifChoose("name-rank", len(free))]
		}
		used[k] = true
		names[i] = sorted[k]
	}
	dep := make([][]bool, n) // dep[j][i]: task j depends on task i
	edges, maxEdges := 0, verifBound("maxedges", 1000) // maxedges: only relations with at most that many edges
	tasks := map[string]definition.TaskDef{}
	for j := 0; j < n; j++ {
		dep[j] = make([]bool, n)
		var on []string
		for i := 0; i < n; i++ {
			if verifBound("dagonly", 0) == 1 && i >= j {
				continue // only edges from lower to higher index: acyclic by construction
			}
			if verifBound("alldags", 0) == 1 {
				// every labelled DAG exactly once: edges in any direction, a relation is abandoned as
				// soon as an edge closes a cycle (i already depends on j, transitively)
				if i == j || vGraphReaches(dep, i, j, n) {
					continue
				}
			}
			if edges >= maxEdges {
				continue
			}
			if verifChoose("dep", 2) == 1 {
				edges++
				dep[j][i] = true
				on = append(on, names[i])
				// a dependency may be listed twice (the loader accepts that): same relation
				if verifBound("dupdeps", 0) == 1 && verifChoose("dep-listed-twice", 2) == 1 {
					on = append(on, names[i])
					verifReach("dependency-listed-twice")
				}
			}
		}
		tasks[names[j]] = definition.TaskDef{Script: []string{"x"}, DependsOn: on}
	}
	// reference: transitive closure
	reach := make([][]bool, n)
	for i := range reach {
		reach[i] = append([]bool{}, dep[i]...)
	}
	for k := 0; k < n; k++ {
		for i := 0; i < n; i++ {
			for j := 0; j < n; j++ {
				if reach[i][k] && reach[k][j] {
					reach[i][j] = true
				}
			}
		}
	}
	cyclic := false
	for i := 0; i < n; i++ {
		if reach[i][i] {
			cyclic = true
		}
	}

	jt := buildJobTasks(tasks)
	verifAssert(len(jt) == n, "C02.every-task-in-the-job")
	_, err := buildPipelineGraph(vID(1), jt, nil)
	if cyclic {
		verifReach("cyclic")
		verifAssert(err != nil, "C02.cyclic-graph-rejected")
	} else {
		verifReach("acyclic")
		verifAssert(err == nil, "C02.acyclic-graph-accepted")
		if verifBound("acceptonly", 0) == 1 {
			return // large runs that only decide acceptance
		}
		pos := func(name string) int {
			for p := range jt {
				if jt[p].Name == name {
					return p
				}
			}
			return -1
		}
		for j := 0; j < n; j++ {
			for i := 0; i < n; i++ {
				if dep[j][i] {
					verifAssert(pos(names[i]) >= 0 && pos(names[i]) < pos(names[j]), "C15.tasks-listed-after-their-dependencies")
				}
			}
		}
		// 2-safety: a second construction under a different map iteration order gives the same sequence
		verifPermuteMaps(true)
		jt2 := buildJobTasks(tasks)
		verifPermuteMaps(false)
		same := len(jt2) == len(jt)
		if same {
			for p := range jt {
				same = verifAnd(same, jt[p].Name == jt2[p].Name)
			}
		}
		verifAssert(same, "C15.task-order-depends-only-on-the-definition")
		if n >= 3 && dep[2][0] && dep[2][1] && !dep[1][0] && !dep[0][1] {
			verifReach("fan-in")
		}
	}
}

// vGraphReaches: does task `from` depend (transitively) on task `to` in the relation built so far?
func vGraphReaches(dep [][]bool, from, to, n int) bool {
	seen := make([]bool, n)
	stack := []int{from}
	for len(stack) > 0 {
		x := stack[len(stack)-1]
		stack = stack[:len(stack)-1]
		if x == to {
			return true
		}
		if seen[x] || dep[x] == nil {
			continue
		}
		seen[x] = true
		for y := 0; y < n; y++ {
			if dep[x][y] {
				stack = append(stack, y)
			}
		}
	}
	return false
}

// VerifC18Reserved: the variable name reserved for job identity is refused, every other name is
// accepted and reaches every stage together with the job's own id (symbolic variable name/value).
func VerifC18Reserved() {
	name := verifString("variable.name")
	value := verifString("variable.value")
	jt := buildJobTasks(map[string]definition.TaskDef{"a": {Script: []string{"x"}}, "b": {Script: []string{"y"}, DependsOn: []string{"a"}}})
	id := vID(7)
	g, err := buildPipelineGraph(id, jt, map[string]interface{}{name: value})
	if name == "__jobID" {
		verifReach("reserved")
		verifAssert(err != nil, "C18.reserved-variable-name-refused")
		return
	}
	verifReach("ordinary")
	verifAssert(err == nil && g != nil, "C18.ordinary-variable-name-accepted")
	if err != nil || g == nil {
		return
	}
	for _, st := range g.Nodes() {
		got, _ := st.Variables.Get("__jobID").(string)
		verifAssert(got == id.String(), "C18.stage-carries-its-own-job-id")
		v, ok := st.Variables.Get(name).(string)
		verifAssert(ok && v == value, "C18.job-variables-reach-every-stage-unchanged")
	}
}
