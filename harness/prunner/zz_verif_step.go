package prunner

// Step harnesses: one real operation from an arbitrary (symbolic) state.
//   VerifC12Retention  - SaveToStore retention vs. the property's clauses
//   VerifC10Load       - restart normalisation from an arbitrary snapshot
//   VerifC10RoundTrip  - finished job -> persisted form -> loaded job, reported identically
//   VerifC13Locks      - lock discipline of every exported operation

import (
	"context"
	"io"
	"time"

	"github.com/friendsofgo/errors"
	"github.com/gofrs/uuid"
	"github.com/taskctl/taskctl/pkg/scheduler"
	"github.com/taskctl/taskctl/pkg/variables"

	"github.com/Flowpack/prunner/definition"
	"github.com/Flowpack/prunner/store"
	"github.com/Flowpack/prunner/taskctl"
)

// ---- recording environment ----

type vStore struct {
	slow     bool
	loadData *store.PersistedData
	saved    []*store.PersistedData
	saveErr  error
}

func (s *vStore) Load() (*store.PersistedData, error) {
	if s.loadData == nil {
		return &store.PersistedData{}, nil
	}
	return s.loadData, nil
}

func (s *vStore) Save(data *store.PersistedData) error {
	if s.slow {
		verifYield() // writing the snapshot takes time: a switch point (charged to the preemption bound)
	}
	s.saved = append(s.saved, data)
	return s.saveErr
}

type vOutputStore struct {
	removed []string
}

func (o *vOutputStore) Writer(jobID string, taskName string, outputName string) (io.WriteCloser, error) {
	return nil, errors.New("not used")
}
func (o *vOutputStore) Reader(jobID string, taskName string, outputName string) (io.ReadCloser, error) {
	return nil, errors.New("not used")
}
func (o *vOutputStore) Remove(jobID string) error {
	o.removed = append(o.removed, jobID)
	return nil
}

func vID(n int) uuid.UUID {
	var u uuid.UUID
	u[0] = 0xB0
	u[15] = byte(n)
	return u
}

func vBareRunner(defs *definition.PipelinesDef, st store.DataStore, out taskctl.OutputStore) *PipelineRunner {
	return &PipelineRunner{
		defs:               defs,
		jobsByID:           make(map[uuid.UUID]*PipelineJob),
		jobsByPipeline:     make(map[string][]*PipelineJob),
		waitListByPipeline: make(map[string][]*PipelineJob),
		store:              st,
		outputStore:        out,
		persistRequests:    make(chan struct{}, 1),
		createTaskRunner:   func(j *PipelineJob) taskctl.Runner { return &vRunner{job: j} },
	}
}

// vArbJob builds a job in an arbitrary state: symbolic creation instant and flags, Start nil or not.
func vArbJob(tag string, n int, pipeline string) *PipelineJob {
	j := &PipelineJob{ID: vID(n), Pipeline: pipeline}
	c := verifInt64Range(tag+".created", 1, 1<<61)
	j.Created = verifTime(c)
	if verifBound("finishedonly", 0) == 1 {
		// larger populations: every job finished (completed, started); ages and settings stay symbolic
		j.Completed = true
		st := verifTime(c)
		j.Start = &st
		if verifBound("noend", 0) == 0 {
			e := verifInt64Range(tag+".end", 1, 1<<61)
			verifAssume(e >= c)
			en := verifTime(e)
			j.End = &en
		}
		j.Tasks = jobTasks{{Name: "a", Status: "done"}}
		return j
	}
	j.Completed = verifBool(tag + ".completed")
	j.Canceled = verifBool(tag + ".canceled")
	if verifChoose(tag+"?started", 2) == 1 {
		st := verifTime(c)
		j.Start = &st
		// a started job that is over may carry its end instant (any instant from its creation on)
		if verifBound("noend", 0) == 0 && verifChoose(tag+"?ended", 2) == 1 {
			verifAssume(verifOr(j.Completed, j.Canceled))
			e := verifInt64Range(tag+".end", 1, 1<<61)
			verifAssume(e >= c)
			en := verifTime(e)
			j.End = &en
		}
	}
	j.Tasks = jobTasks{{Name: "a", Status: "done"}}
	return j
}

func vFinished(j *PipelineJob) bool {
	// finished = neither waiting nor running (built without forking)
	waiting := verifAnd(j.Start == nil, verifNot(j.Canceled))
	unfinished := verifAnd(verifNot(j.Completed), verifNot(j.Canceled))
	return verifAnd(verifNot(waiting), verifNot(unfinished))
}

// VerifC12Retention: arbitrary population, arbitrary retention settings, symbolic clock.
func VerifC12Retention() {
	NP := verifBound("NP", 3)
	NQ := verifBound("NQ", 1)
	pdef := definition.PipelineDef{Concurrency: 1, RetentionCount: verifInt("p.retention_count"), RetentionPeriod: time.Duration(verifInt64("p.retention_period"))}
	qdef := definition.PipelineDef{Concurrency: 1, RetentionCount: verifInt("q.retention_count"), RetentionPeriod: time.Duration(verifInt64("q.retention_period"))}
	defs := &definition.PipelinesDef{Pipelines: map[string]definition.PipelineDef{"p": pdef, "q": qdef}}
	st := &vStore{}
	out := &vOutputStore{}
	r := vBareRunner(defs, st, out)

	var all []*PipelineJob
	np := verifChoose("#jobs.p", NP+1)
	nq := verifChoose("#jobs.q", NQ+1)
	ngone := verifChoose("#jobs.gone", 2)
	add := func(tag string, pipeline string) {
		j := vArbJob(tag, len(all)+1, pipeline)
		all = append(all, j)
		r.jobsByID[j.ID] = j
		r.jobsByPipeline[pipeline] = append(r.jobsByPipeline[pipeline], j)
	}
	for i := 0; i < np; i++ {
		add("p.job", "p")
	}
	for i := 0; i < nq; i++ {
		add("q.job", "q")
	}
	for i := 0; i < ngone; i++ {
		add("gone.job", "gone")
	}

	saveStart := vNowNs()
	r.SaveToStore()

	verifAssert(len(st.saved) == 1, "C12.one-save")
	if len(st.saved) != 1 {
		return
	}
	snap := st.saved[0]
	kept := func(j *PipelineJob) bool { _, ok := r.jobsByID[j.ID]; return ok }
	inSnap := func(j *PipelineJob) bool {
		for _, pj := range snap.Jobs {
			if pj.ID == j.ID {
				return true
			}
		}
		return false
	}
	inList := func(j *PipelineJob) int {
		n := 0
		for _, x := range r.jobsByPipeline[j.Pipeline] {
			if x == j {
				n++
			}
		}
		return n
	}
	removedLogs := func(j *PipelineJob) int {
		n := 0
		for _, id := range out.removed {
			if id == j.ID.String() {
				n++
			}
		}
		return n
	}
	nKept := 0
	for _, j := range all {
		k := kept(j)
		if k {
			nKept++
		}
		// three views agree
		verifAssert(inSnap(j) == k, "C12.store-equals-memory")
		if k {
			verifAssert(inList(j) == 1, "C12.pipeline-list-equals-memory")
			verifAssert(removedLogs(j) == 0, "C12.kept-job-logs-untouched")
		} else {
			verifAssert(inList(j) == 0, "C12.pipeline-list-equals-memory")
			verifAssert(removedLogs(j) == 1, "C12.removed-job-logs-removed")
		}
		def, defined := defs.Pipelines[j.Pipeline]
		if !defined {
			// a job that still executes may be kept until it has finished (C01: it holds its slot until it is
			// reported completed); everything else of a pipeline that is no longer defined is removed
			executing := verifAnd(j.Start != nil, verifAnd(verifNot(j.Completed), verifNot(j.Canceled)))
			verifAssert(verifImplies(verifNot(executing), !k), "C12.undefined-pipeline-purged")
			continue
		}
		fin := vFinished(j)
		verifAssert(verifImplies(verifNot(fin), k), "C12.waiting-or-running-never-removed")
		noSettings := verifAnd(def.RetentionCount <= 0, def.RetentionPeriod <= 0)
		verifAssert(verifImplies(noSettings, k), "C12.no-settings-nothing-removed")
		if k {
			age := saveStart - verifTimeNs(j.Created)
			verifAssert(verifImplies(verifAnd(fin, def.RetentionPeriod > 0), verifNot(age > int64(def.RetentionPeriod))), "C12.none-older-than-period")
			// every strictly newer finished job of the same pipeline is kept as well
			for _, o := range all {
				if o.Pipeline == j.Pipeline && o != j && !kept(o) {
					verifAssert(verifNot(verifAnd(fin, verifAnd(vFinished(o), o.Created.After(j.Created)))), "C12.newest-first")
				}
			}
		}
	}
	verifAssert(len(snap.Jobs) == nKept && len(r.jobsByID) == nKept, "C12.store-equals-memory")
	verifAssert(len(out.removed) == len(all)-nKept, "C12.logs-removed-exactly-for-removed-jobs")
	for _, name := range []string{"p", "q"} {
		def := defs.Pipelines[name]
		var n int64
		for _, j := range all {
			if j.Pipeline == name && kept(j) {
				n += verifIte(vFinished(j), 1, 0)
			}
		}
		verifAssert(verifImplies(def.RetentionCount > 0, n <= int64(def.RetentionCount)), "C12.at-most-count-finished-remain")
	}
	if len(out.removed) > 0 {
		verifReach("removed")
	}
	if np == NP {
		verifReach("full-population")
	}
}

// ---- C10 ----

func vArbPersistedJob(tag string, n int) store.PersistedJob {
	pj := store.PersistedJob{ID: vID(n), Pipeline: "p"}
	if verifChoose(tag+"?pipeline", 2) == 1 {
		pj.Pipeline = "gone"
	}
	pj.Completed = verifBool(tag + ".completed")
	pj.Canceled = verifBool(tag + ".canceled")
	c := verifInt64(tag + ".created")
	verifAssume(c > 0 && c < 1<<61)
	pj.Created = verifTime(c)
	if verifChoose(tag+"?started", 2) == 1 {
		st := verifTime(c)
		pj.Start = &st
	}
	nt := verifChoose(tag+"#tasks", 3)
	for i := 0; i < nt; i++ {
		pt := store.PersistedTask{Name: "t" + string(rune('0'+i)), Status: verifString(tag + ".task.status")}
		pj.Tasks = append(pj.Tasks, pt)
	}
	return pj
}

// VerifC10Load: starting a runner from an arbitrary snapshot yields only terminal jobs, no ghost
// capacity, nothing lost or duplicated.
func VerifC10Load() {
	NJ := verifBound("NJ", 2)
	defs := vMakeDefs("def", 0)
	data := &store.PersistedData{}
	n := verifChoose("#jobs", NJ+1)
	for i := 0; i < n; i++ {
		data.Jobs = append(data.Jobs, vArbPersistedJob("job", i+1))
	}
	st := &vStore{loadData: data}
	r, err := NewPipelineRunner(context.Background(), defs, func(j *PipelineJob) taskctl.Runner { return &vRunner{job: j} }, st, &vOutputStore{})
	verifAssert(err == nil && r != nil, "C10.load-succeeds")
	if err != nil {
		return
	}
	seen := 0
	r.IterateJobs(func(j *PipelineJob) {
		seen++
		verifAssert(j.Completed || j.Canceled, "C10.every-job-terminal")
		verifAssert(!j.isRunning(), "C10.no-job-running")
		verifAssert(!(j.Start == nil && !j.Canceled), "C10.no-job-waiting")
	})
	verifAssert(seen == n, "C10.no-job-lost-or-duplicated")
	for i := 0; i < n; i++ {
		id := data.Jobs[i].ID
		found := 0
		_ = r.ReadJob(id, func(j *PipelineJob) { found++ })
		verifAssert(found == 1, "C10.no-job-lost-or-duplicated")
		// a job that was finished before is reported with the same flags
		pj := data.Jobs[i]
		wasFinished := (pj.Completed || pj.Canceled) && !(pj.Start == nil && !pj.Canceled)
		wasRunning := pj.Start != nil && !pj.Completed && !pj.Canceled
		if wasRunning {
			verifReach("running-job")
			_ = r.ReadJob(id, func(j *PipelineJob) {
				for i := range j.Tasks {
					verifAssert(j.Tasks[i].Status != "running" && j.Tasks[i].Status != "waiting", "C10.tasks-of-interrupted-job-not-running")
				}
			})
		}
		if wasFinished {
			verifReach("finished-job")
			_ = r.ReadJob(id, func(j *PipelineJob) {
				verifAssert(j.Completed == pj.Completed && j.Canceled == pj.Canceled, "C10.finished-job-flags-unchanged")
			})
		} else {
			verifReach("unfinished-job")
		}
	}
	for _, wl := range r.waitListByPipeline {
		verifAssert(len(wl) == 0, "C10.wait-lists-empty")
	}
	for _, pi := range r.ListPipelines() {
		verifAssert(pi.Schedulable, "C10.no-ghost-capacity.schedulable")
		verifAssert(!pi.Running, "C10.no-ghost-capacity.not-running")
	}
	if n == NJ {
		verifReach("full")
	}
}

// vReport is the view the API reports of a job (the fields server.jobToResult copies).
type vTaskReport struct {
	Name      string
	DependsOn []string
	Status    string
	Start     *time.Time
	End       *time.Time
	Skipped   bool
	ExitCode  int16
	Errored   bool
	Error     string
	HasError  bool
}

type vJobReport struct {
	ID        uuid.UUID
	Pipeline  string
	Completed bool
	Canceled  bool
	Created   time.Time
	Start     *time.Time
	End       *time.Time
	LastError string
	HasLast   bool
	Variables map[string]interface{}
	User      string
	Tasks     []vTaskReport
}

func vReport(j *PipelineJob) vJobReport {
	r := vJobReport{ID: j.ID, Pipeline: j.Pipeline, Completed: j.Completed, Canceled: j.Canceled, Created: j.Created, Start: j.Start, End: j.End,
		Variables: j.Variables, User: j.User}
	if j.LastError != nil {
		r.HasLast = true
		r.LastError = j.LastError.Error()
	}
	for _, t := range j.Tasks {
		tr := vTaskReport{Name: t.Name, DependsOn: t.DependsOn, Status: t.Status, Start: t.Start, End: t.End, Skipped: t.Skipped, ExitCode: t.ExitCode, Errored: t.Errored}
		if t.Error != nil {
			tr.HasError = true
			tr.Error = t.Error.Error()
		}
		r.Tasks = append(r.Tasks, tr)
	}
	return r
}

func vArbTime(tag string) *time.Time {
	if verifChoose(tag+"?nil", 2) == 0 {
		return nil
	}
	n := verifInt64(tag)
	verifAssume(n > 0 && n < 1<<61)
	t := verifTime(n)
	return &t
}

func vArbErr(tag string) error {
	if verifChoose(tag+"?nil", 2) == 0 {
		return nil
	}
	msg := verifString(tag + ".msg")
	verifAssume(msg != "") // error texts are non-empty (documented assumption)
	return errors.New(msg)
}

// VerifC10RoundTrip: an arbitrary finished job is reported identically after save + load.
func VerifC10RoundTrip() {
	j := &PipelineJob{ID: vID(1), Pipeline: "p", User: verifString("user")}
	j.Completed = verifBool("completed")
	j.Canceled = verifBool("canceled")
	verifAssume(j.Completed || j.Canceled)
	c := verifInt64("created")
	verifAssume(c > 0 && c < 1<<61)
	j.Created = verifTime(c)
	j.Start = vArbTime("start")
	verifAssume(!(j.Start == nil && !j.Canceled))
	j.End = vArbTime("end")
	j.LastError = vArbErr("lastError")
	switch verifChoose("#vars", 3) {
	case 1:
		j.Variables = map[string]interface{}{verifString("var.key"): verifString("var.value")}
	case 2:
		j.Variables = map[string]interface{}{"n": verifBool("var.bool")}
	}
	nt := verifChoose("#tasks", 3)
	for i := 0; i < nt; i++ {
		tag := "task"
		t := jobTask{Name: "t" + string(rune('0'+i)), Status: verifString(tag + ".status"), Skipped: verifBool(tag + ".skipped"),
			ExitCode: verifInt16(tag + ".exit"), Errored: verifBool(tag + ".errored"), Start: vArbTime(tag + ".start"), End: vArbTime(tag + ".end"), Error: vArbErr(tag + ".error")}
		t.Script = []string{verifString(tag + ".script")}
		t.AllowFailure = verifBool(tag + ".allow_failure")
		if i > 0 {
			t.DependsOn = []string{"t0"}
		}
		j.Tasks = append(j.Tasks, t)
	}
	defs := &definition.PipelinesDef{Pipelines: map[string]definition.PipelineDef{"p": {Concurrency: 1}}}
	st := &vStore{}
	r := vBareRunner(defs, st, &vOutputStore{})
	r.jobsByID[j.ID] = j
	r.jobsByPipeline["p"] = []*PipelineJob{j}
	before := vReport(j)
	r.SaveToStore()
	verifAssert(len(st.saved) == 1 && len(st.saved[0].Jobs) == 1, "C10.finished-job-is-saved")
	if len(st.saved) != 1 || len(st.saved[0].Jobs) != 1 {
		return
	}
	// restart on the saved snapshot
	st2 := &vStore{loadData: st.saved[0]}
	r2, err := NewPipelineRunner(context.Background(), defs, func(j *PipelineJob) taskctl.Runner { return &vRunner{job: j} }, st2, &vOutputStore{})
	verifAssert(err == nil, "C10.load-succeeds")
	if err != nil {
		return
	}
	found := false
	_ = r2.ReadJob(j.ID, func(l *PipelineJob) {
		found = true
		after := vReport(l)
		verifAssert(after.Completed == before.Completed && after.Canceled == before.Canceled, "C10.roundtrip.flags")
		verifAssert(after.Created.Equal(before.Created), "C10.roundtrip.created")
		verifAssert(verifDeepEqual(after.Start, before.Start) && verifDeepEqual(after.End, before.End), "C10.roundtrip.start-end")
		verifAssert(after.User == before.User && after.Pipeline == before.Pipeline && after.ID == before.ID, "C10.roundtrip.identity")
		verifAssert(verifDeepEqual(after.Variables, before.Variables), "C10.roundtrip.variables")
		verifAssert(after.HasLast == before.HasLast && after.LastError == before.LastError, "C10.roundtrip.last-error")
		verifAssert(len(after.Tasks) == len(before.Tasks), "C10.roundtrip.tasks")
		if len(after.Tasks) == len(before.Tasks) {
			for i := range after.Tasks {
				verifAssert(verifDeepEqual(after.Tasks[i], before.Tasks[i]), "C10.roundtrip.task-fields")
			}
		}
	})
	verifAssert(found, "C10.no-job-lost-or-duplicated")
	if nt == 2 {
		verifReach("two-tasks")
	}
}

// ---- C13 ----

// vCtx is a context written in harness Go (cancel = close(done)).
type vCtx struct {
	done chan struct{}
	err  error
}

func (c *vCtx) Deadline() (time.Time, bool)       { return time.Time{}, false }
func (c *vCtx) Done() <-chan struct{}             { return c.done }
func (c *vCtx) Err() error                        { return c.err }
func (c *vCtx) Value(key interface{}) interface{} { return nil }

// VerifC13Locks: every access to runner state by every exported operation happens under r.mx in
// the right mode. The state is built through the public API (one running, one finished, one
// waiting job; store and retention configured so that a save removes a job).
func VerifC13Locks() {
	verifIntercept("github.com/gofrs/uuid.NewV4", vNewV4)
	verifIntercept("time.AfterFunc", vAfterFunc)
	verifIntercept("(*time.Timer).Stop", vTimerStop)
	verifIntercept("(*github.com/Flowpack/prunner/taskctl.Scheduler).Schedule", vScheduleStub)
	w := &vWorld{envAtRunner: map[*PipelineJob]map[string]string{}}
	vW = w
	l := 3
	w.defs = &definition.PipelinesDef{Pipelines: map[string]definition.PipelineDef{vP: {Concurrency: 1, QueueLimit: &l, RetentionCount: 1, Tasks: vTasks(0), Env: vEnv(0)}}}
	st := &vStore{}
	r, err := NewPipelineRunner(context.Background(), w.defs, func(j *PipelineJob) taskctl.Runner {
		w.envAtRunner[j] = j.Env
		return &vRunner{job: j}
	}, st, &vOutputStore{})
	if err != nil {
		verifFail("harness: NewPipelineRunner failed")
		return
	}
	w.r = r
	w.scanSpawned() // the persist loop goroutine
	verifTrackLocks(&r.mx, r)
	// the scheduler goroutine reads job.sched without the lock: written before the `go` statement that
	// starts it and next written by that goroutine's own JobCompleted (happens-before via go / program order)
	// (the allowance is by field and only while that goroutine runs, see ret below - not by function
	// name, so that moving the goroutine body into a method does not raise an alarm)
	// fields set once in NewPipelineRunner and never written again may be read without the lock;
	// any later write to them is reported
	for _, f := range []string{"*r.store", "*r.outputStore", "*r.persistRequests", "*r.createTaskRunner"} {
		verifTrackAllow("immutable:" + f)
	}

	op := verifChoose("op", 13)
	// common prefix: j1 runs and finishes, j2 runs, j3 waits
	sched := func() *PipelineJob {
		verifTrackRefresh()
		j, _ := r.ScheduleAsync(vP, ScheduleOpts{User: "u"})
		if j != nil {
			w.jobs = append(w.jobs, &vJob{job: j, id: j.ID, name: vJobName(len(w.jobs)), spawnIdx: -1})
		}
		w.scanSpawned()
		verifTrackRefresh()
		return j
	}
	ret := func(vj *vJob) {
		verifTrackRefresh()
		w.retResult = nil
		vj.live = false
		verifTrackAllow("**r.jobsByID[k].sched")
		verifTrackAllow("**r.jobsByID[k].ID")
		verifRunSpawned(vj.spawnIdx)
		verifTrackDisallow("**r.jobsByID[k].sched")
		verifTrackDisallow("**r.jobsByID[k].ID")
		w.scanSpawned()
		verifTrackRefresh()
	}
	sched()
	ret(w.jobs[0])
	sched()
	sched()
	sched()
	ret(w.jobs[1]) // j2 finishes, j3 is dequeued, j4 waits; j1 and j2 are finished (retention count 1)
	verifTrackRefresh()
	switch op {
	case 0:
		verifEvent("op ScheduleAsync")
		sched()
	case 1:
		verifEvent("op CancelJob(running)")
		_ = r.CancelJob(w.jobs[2].id)
	case 2:
		verifEvent("op CancelJob(waiting)")
		_ = r.CancelJob(w.jobs[3].id)
	case 3:
		verifEvent("op ReadJob")
		_ = r.ReadJob(w.jobs[2].id, func(j *PipelineJob) { _ = j.Completed; _ = len(j.Tasks) })
	case 4:
		verifEvent("op IterateJobs")
		r.IterateJobs(func(j *PipelineJob) { _ = j.Canceled })
	case 5:
		verifEvent("op ListPipelines")
		_ = r.ListPipelines()
	case 6:
		verifEvent("op ReplaceDefinitions")
		r.ReplaceDefinitions(w.defs)
	case 7:
		verifEvent("op SaveToStore")
		r.SaveToStore()
		verifAssert(len(st.saved) == 1, "C13.save-happened")
	case 8:
		verifEvent("op HandleTaskChange+HandleStageChange")
		w.doTaskErr(w.jobs[2])
	case 9:
		verifEvent("op JobCompleted")
		ret(w.jobs[2])
	case 10:
		verifEvent("op StartDelayedJob")
		r.StartDelayedJob(w.jobs[3].id)
	case 12:
		verifEvent("op HandleStageChange")
		vj := w.jobs[2]
		st := &scheduler.Stage{Name: vj.job.Tasks[0].Name, Variables: variables.FromMap(map[string]string{taskctl.JobIDVariableName: vj.id.String()})}
		st.UpdateStatus(scheduler.StatusRunning)
		r.HandleStageChange(st)
	case 11:
		verifEvent("op Shutdown (idle runner)")
		ret(w.jobs[2])
		ret(w.jobs[3])
		_ = r.Shutdown(&vCtx{done: make(chan struct{})})
	}
	verifAssert(verifLockMode(&r.mx) == 0, "C13.lock-released")
	// goroutines started by the operation (stop delivery, scheduler goroutines) run concurrently with
	// every other caller: run each of them now, interleaved with a completing job, under the same tracking
	if op == 1 {
		// the job whose stop is being delivered completes first (natural completion racing the cancel)
		verifEvent("then: job completes before the stop is delivered")
		ret(w.jobs[2])
	}
	w.scanSpawned()
	for _, cg := range w.cancelGos {
		if !cg.done {
			cg.done = true
			verifEvent("then: pending stop delivery runs")
			verifRunSpawned(cg.idx)
		}
	}
	for _, og := range w.otherGos[1:] { // [0] is the persist loop
		if !og.done {
			og.done = true
			verifEvent("then: another pending goroutine runs")
			verifRunSpawned(og.idx)
		}
	}
	verifAssert(verifLockMode(&r.mx) == 0, "C13.lock-released")
	verifReach("op-done")
}

var verifEntries = map[string]func(){
	"VerifC12Retention": VerifC12Retention,
	"VerifC10RoundTrip": VerifC10RoundTrip,
	"VerifC10Load":      VerifC10Load,
}

func init() {
	verifEntries["VerifC18Reserved"] = VerifC18Reserved
	verifEntries["VerifC02Graph"] = VerifC02Graph
}
