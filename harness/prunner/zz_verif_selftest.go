package prunner

// Translator validation: the inputs of the repository's own unit tests for the L0 kernels are pushed
// through the engine (concretely) and must give the values the tests expect. A disagreement means
// the interpreter, not prunner, is wrong (the run then fails as an engine self-test, exit 2).

import (
	"time"

	"github.com/gofrs/uuid"

	"github.com/Flowpack/prunner/definition"
)

func vExpectOrder(jt jobTasks, want []string) bool {
	if len(jt) != len(want) {
		return false
	}
	for i := range jt {
		if jt[i].Name != want[i] {
			return false
		}
	}
	return true
}

func VerifSelfTest() {
	// TestJobTasks_sortTasksByDependencies (4 cases)
	c1 := jobTasks{{Name: "zeta"}, {Name: "alpha"}}
	c1.sortTasksByDependencies()
	verifAssert(vExpectOrder(c1, []string{"alpha", "zeta"}), "selftest.sort.no-dependencies")
	c2 := jobTasks{{Name: "b", TaskDef: definition.TaskDef{DependsOn: []string{"a"}}}, {Name: "a"}}
	c2.sortTasksByDependencies()
	verifAssert(vExpectOrder(c2, []string{"a", "b"}), "selftest.sort.simple-dep")
	c3 := jobTasks{
		{Name: "site_export", TaskDef: definition.TaskDef{DependsOn: []string{"prepare_directory"}}},
		{Name: "build_archive", TaskDef: definition.TaskDef{DependsOn: []string{"site_export"}}},
		{Name: "prepare_directory"},
	}
	c3.sortTasksByDependencies()
	verifAssert(vExpectOrder(c3, []string{"prepare_directory", "site_export", "build_archive"}), "selftest.sort.chain")
	c4 := jobTasks{
		{Name: "a"},
		{Name: "b", TaskDef: definition.TaskDef{DependsOn: []string{"a", "e"}}},
		{Name: "c", TaskDef: definition.TaskDef{DependsOn: []string{"d", "b"}}},
		{Name: "d", TaskDef: definition.TaskDef{DependsOn: []string{"a"}}},
		{Name: "e", TaskDef: definition.TaskDef{DependsOn: []string{"a"}}},
		{Name: "f", TaskDef: definition.TaskDef{DependsOn: []string{"b", "e"}}},
		{Name: "g", TaskDef: definition.TaskDef{DependsOn: []string{"c", "f"}}},
	}
	c4.sortTasksByDependencies()
	verifAssert(vExpectOrder(c4, []string{"a", "d", "e", "b", "c", "f", "g"}), "selftest.sort.complex-dep")

	// TestSortJobsByCreationDate_ShouldSortDescending
	u1 := uuid.FromStringOrNil("6ba7b810-9dad-11d1-80b4-00c04fd430c8")
	u2 := uuid.FromStringOrNil("7ba7b810-9dad-11d1-80b4-00c04fd430c9")
	u3 := uuid.FromStringOrNil("8ba7b810-9dad-11d1-80b4-00c04fd430c0")
	jobs := []*PipelineJob{{ID: u1, Created: verifTime(1000)}, {ID: u2, Created: verifTime(2000)}, {ID: u3, Created: verifTime(3000)}}
	pipelineJobBy(byCreationTimeDesc).Sort(jobs)
	verifAssert(jobs[0].ID == u3 && jobs[1].ID == u2 && jobs[2].ID == u1, "selftest.sort-jobs-descending")
	verifAssert(u1.String() == "6ba7b810-9dad-11d1-80b4-00c04fd430c8", "selftest.uuid-roundtrip")

	// TestPipelineRunner_TimeBasedRetentionPolicyCalculatesCorrectly (the clock is the engine's: ages
	// are expressed relative to a symbolic now, as the test does relative to time.Now())
	defs := &definition.PipelinesDef{Pipelines: map[string]definition.PipelineDef{
		"jobWithRetentionCount": {RetentionPeriod: time.Hour, Concurrency: 100},
	}}
	r := vBareRunner(defs, nil, nil)
	now := vNowNs()
	verifAssume(now > int64(3*time.Hour))
	ti := verifTime(now)
	rm, reason := r.determineIfJobShouldBeRemoved(0, &PipelineJob{Pipeline: "jobWithRetentionCount", Created: verifTime(now), Start: &ti, Canceled: true})
	verifAssume(vNowNs()-now < int64(time.Minute)) // the test runs within a minute
	verifAssert(!rm && reason == "", "selftest.retention.fresh-job-kept")
	rm2, _ := r.determineIfJobShouldBeRemoved(0, &PipelineJob{Pipeline: "jobWithRetentionCount", Created: verifTime(now - int64(2*time.Hour)), Start: &ti, Canceled: true})
	verifAssert(rm2, "selftest.retention.old-job-removed")

	// TestPipelinesDef_Equals (subset): identical definitions are equal, a changed script is detected
	d1 := definition.PipelinesDef{Pipelines: map[string]definition.PipelineDef{"p": {Concurrency: 1, Tasks: map[string]definition.TaskDef{"a": {Script: []string{"echo A"}}}}}}
	d2 := definition.PipelinesDef{Pipelines: map[string]definition.PipelineDef{"p": {Concurrency: 1, Tasks: map[string]definition.TaskDef{"a": {Script: []string{"echo A"}}}}}}
	d3 := definition.PipelinesDef{Pipelines: map[string]definition.PipelineDef{"p": {Concurrency: 1, Tasks: map[string]definition.TaskDef{"a": {Script: []string{"echo B"}}}}}}
	verifAssert(d1.Equals(d2) && !d1.Equals(d3), "selftest.equals")
	verifReach("selftest-done")
}
