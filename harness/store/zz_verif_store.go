package store

// C10c: non-integer numbers in job variables survive the store's JSON codec.
// The codec is reflection-driven and is not executed; what is executed symbolically is the float
// writer the store's configuration selects: jsoniter's (*Stream).WriteFloat64Lossy, with the value
// as a symbolic IEEE-754 double. Two distinct doubles that print identically cannot both be read back.

import (
	jsoniter "github.com/json-iterator/go"
)

type vFloatCapture struct {
	parts []uint64
}

var vCap *vFloatCapture

func vWriteUint64(s *jsoniter.Stream, v uint64) { vCap.parts = append(vCap.parts, v) }

// VerifC10Float: is the float writer selected by store.json injective on (0, 2^26]?
func VerifC10Float() {
	src := verifGlobalInitSource("github.com/Flowpack/prunner/store.json")
	verifNote("store.json initialised from", src)
	lossy := -1
	if src != "" {
		lossy = verifGlobalLiteralBool(src, "MarshalFloatWith6Digits")
	} else {
		lossy = verifGlobalLiteralBool("github.com/Flowpack/prunner/store.json", "MarshalFloatWith6Digits")
	}
	if lossy == 0 {
		// strconv.AppendFloat(..., -1, 64): shortest representation that round-trips (documented contract)
		verifReach("exact-float-writer")
		return
	}
	if lossy != 1 {
		verifUnsupported("cannot determine the float writer configured for store.json from the SSA of the package initialisers")
	}
	verifReach("lossy-float-writer")
	verifIntercept("(*github.com/json-iterator/go.Stream).WriteUint64", vWriteUint64)
	run := func(tag string) (float64, []uint64) {
		v := verifFloat64(tag)
		verifAssume(v > 0 && v <= 1000)
		vCap = &vFloatCapture{}
		s := &jsoniter.Stream{}
		s.WriteFloat64Lossy(v)
		return v, vCap.parts
	}
	v1, p1 := run("v1")
	v2, p2 := run("v2")
	same := len(p1) == len(p2)
	if same {
		for i := range p1 {
			same = verifAnd(same, p1[i] == p2[i])
		}
	}
	// distinct values must be written differently, otherwise one of them is not read back
	verifAssert(verifImplies(v1 != v2, verifNot(same)), "C10.roundtrip.float-variables")
}
