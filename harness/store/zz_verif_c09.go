package store

// C09: the job store on disk is always a complete snapshot.
// The real JsonDataStore.Save / Load run against a small file-system model (atomic operations:
// create temp, write chunk, close, rename, open); every OS call may fail (decision), a write may be
// short; after EVERY file-system operation (= at every instant at which the process can die or a
// reader can look) data.json is absent or holds exactly one complete encoding.
// The JSON codec is not executed: the encoder writes an opaque encoding enc(snapshot) in 1..3 chunks.

import (
	"io"
	"os"

	"github.com/friendsofgo/errors"
	jsoniter "github.com/json-iterator/go"
)

type vChunk struct {
	snap    int // which Save call
	k       int // chunk index
	of      int // number of chunks of that encoding
	partial bool
}

type vNode struct {
	chunks []vChunk
}

type vHandle struct {
	name   string
	node   *vNode
	closed bool
	read   bool
}

type vFSModel struct {
	files   map[string]*vNode
	handles map[*os.File]*vHandle
	tmpN    int
	ops     int
	snaps   []*PersistedData
	curSave int
	concurrent bool
	encTo   map[*jsoniter.Encoder]io.Writer
	decFrom map[*jsoniter.Decoder]io.Reader
}

var vFS *vFSModel

var vIOErr = errors.New("input/output error")

// fail: whether this OS call fails is a symbolic boolean (the solver's model is the fault schedule).
func (fs *vFSModel) fail(what string) bool {
	if verifBound("faults", 1) == 0 {
		return false
	}
	return verifBool("fault." + what)
}

// complete reports whether a node holds exactly one complete encoding, and of which snapshot.
func vComplete(n *vNode) (bool, int) {
	if len(n.chunks) == 0 {
		return false, -1
	}
	s, of := n.chunks[0].snap, n.chunks[0].of
	if len(n.chunks) != of {
		return false, -1
	}
	for i, c := range n.chunks {
		if c.snap != s || c.k != i || c.partial {
			return false, -1
		}
	}
	return true, s
}

// invariant: checked after every file-system operation.
func (fs *vFSModel) check(op string) {
	fs.ops++
	if fs.concurrent {
		defer verifYield() // another saver (or a reader) may run between any two file-system operations
	}
	n, ok := fs.files["/data/data.json"]
	if !ok {
		return
	}
	okc, s := vComplete(n)
	verifAssert(okc, "C09.store-file-always-complete")
	verifAssert(s >= 0 && s <= fs.curSave, "C09.store-file-is-a-snapshot-passed-to-save")
}

func vCreateTemp(dir, pattern string) (*os.File, error) {
	fs := vFS
	if fs.fail("CreateTemp") {
		return nil, vIOErr
	}
	fs.tmpN++
	name := dir + "/data." + string(rune('0'+fs.tmpN)) + ".tmp"
	verifAssert(dir == "/data", "C09.temp-file-in-store-directory")
	n := &vNode{}
	fs.files[name] = n
	f := &os.File{}
	fs.handles[f] = &vHandle{name: name, node: n}
	fs.check("create " + name)
	return f, nil
}

func vFileName(f *os.File) string { return vFS.handles[f].name }

func vFileWrite(f *os.File, b []byte) (int, error) {
	verifFail("harness: raw Write not expected (the encoder stub writes chunks)")
	return 0, nil
}

func (fs *vFSModel) writeChunk(f *os.File, c vChunk) error {
	h := fs.handles[f]
	if h == nil || h.closed {
		return os.ErrClosed
	}
	if fs.fail("Write") {
		if verifBool("fault.short-write") {
			c.partial = true
			h.node.chunks = append(h.node.chunks, c)
			fs.check("short write")
		}
		return vIOErr
	}
	h.node.chunks = append(h.node.chunks, c)
	fs.check("write")
	return nil
}

func vFileClose(f *os.File) error {
	fs := vFS
	if f == nil {
		return os.ErrInvalid
	}
	h := fs.handles[f]
	if h == nil || h.closed {
		return os.ErrClosed
	}
	h.closed = true
	fs.check("close")
	if !h.read && fs.fail("Close") {
		return vIOErr
	}
	return nil
}

func vRename(oldp, newp string) error {
	fs := vFS
	n, ok := fs.files[oldp]
	if !ok {
		return os.ErrNotExist
	}
	if fs.fail("Rename") {
		return vIOErr
	}
	if newp == "/data/data.json" {
		okc, _ := vComplete(n)
		verifAssert(okc, "C09.only-complete-files-are-published")
		for _, h := range fs.handles {
			if h.node == n && !h.read {
				verifAssert(h.closed, "C09.published-file-was-closed")
			}
		}
		verifReach("published")
	}
	delete(fs.files, oldp)
	fs.files[newp] = n
	fs.check("rename")
	return nil
}

// vCreate / vOpenFile / vWriteFile: any other way of opening a file for writing truncates or creates
// it in place; the invariant is evaluated right away.
func vCreate(name string) (*os.File, error) {
	fs := vFS
	n := &vNode{}
	fs.files[name] = n
	f := &os.File{}
	fs.handles[f] = &vHandle{name: name, node: n}
	fs.check("create/truncate " + name)
	return f, nil
}

func vOpenFile(name string, flag int, perm os.FileMode) (*os.File, error) {
	if flag&(os.O_WRONLY|os.O_RDWR|os.O_CREATE|os.O_TRUNC) != 0 {
		return vCreate(name)
	}
	return vOpen(name)
}

func vWriteFile(name string, data []byte, perm os.FileMode) error {
	f, _ := vCreate(name)
	vFS.handles[f].node.chunks = append(vFS.handles[f].node.chunks, vChunk{snap: vFS.curSave, k: 0, of: 2, partial: true})
	vFS.check("write in place")
	vFS.handles[f].node.chunks = []vChunk{{snap: vFS.curSave, k: 0, of: 1}}
	vFS.check("write in place")
	return nil
}

func vRemove(name string) error {
	delete(vFS.files, name)
	vFS.check("remove")
	return nil
}

func vOpen(name string) (*os.File, error) {
	fs := vFS
	n, ok := fs.files[name]
	if !ok {
		return nil, os.ErrNotExist
	}
	f := &os.File{}
	fs.handles[f] = &vHandle{name: name, node: n, read: true}
	return f, nil
}

type vAPI struct {
	jsoniter.API
}

func (a vAPI) NewEncoder(w io.Writer) *jsoniter.Encoder {
	e := &jsoniter.Encoder{}
	vFS.encTo[e] = w
	return e
}

func (a vAPI) NewDecoder(r io.Reader) *jsoniter.Decoder {
	d := &jsoniter.Decoder{}
	vFS.decFrom[d] = r
	return d
}

func vEncode(e *jsoniter.Encoder, val interface{}) error {
	fs := vFS
	f, ok := fs.encTo[e].(*os.File)
	if !ok {
		verifFail("harness: encoder writes to something that is not the temp file")
		return nil
	}
	data, ok := val.(*PersistedData)
	snapIdx := fs.curSave
	if fs.concurrent {
		snapIdx = -1
		for i, sn := range fs.snaps {
			if sn == data {
				snapIdx = i
			}
		}
		verifAssert(ok && snapIdx >= 0, "C09.encodes-the-snapshot-passed-to-save")
	} else {
		verifAssert(ok && data == fs.snaps[fs.curSave], "C09.encodes-the-snapshot-passed-to-save")
	}
	chunks := verifInt("encoder.chunks")
	verifAssume(chunks >= 1 && chunks <= verifBound("chunks", 2))
	for k := 0; k < chunks; k++ {
		if err := fs.writeChunk(f, vChunk{snap: snapIdx, k: k, of: chunks}); err != nil {
			return err
		}
	}
	return nil
}

func vDecode(d *jsoniter.Decoder, v interface{}) error {
	fs := vFS
	f, _ := fs.decFrom[d].(*os.File)
	h := fs.handles[f]
	if h == nil {
		return vIOErr
	}
	okc, s := vComplete(h.node)
	if !okc {
		return errors.New("unexpected end of JSON input")
	}
	*(v.(*PersistedData)) = *fs.snaps[s]
	return nil
}

// VerifC09Store: up to `saves` consecutive saves with arbitrary faults, a load after each.
func VerifC09Store() {
	fs := &vFSModel{files: map[string]*vNode{}, handles: map[*os.File]*vHandle{}, encTo: map[*jsoniter.Encoder]io.Writer{}, decFrom: map[*jsoniter.Decoder]io.Reader{}}
	vFS = fs
	json = vAPI{}
	verifIntercept("os.CreateTemp", vCreateTemp)
	verifIntercept("(*os.File).Name", vFileName)
	verifIntercept("(*os.File).Write", vFileWrite)
	verifIntercept("(*os.File).Close", vFileClose)
	verifIntercept("os.Rename", vRename)
	verifIntercept("os.Open", vOpen)
	verifIntercept("os.Create", vCreate)
	verifIntercept("os.OpenFile", vOpenFile)
	verifIntercept("os.WriteFile", vWriteFile)
	verifIntercept("io/ioutil.WriteFile", vWriteFile)
	verifIntercept("os.Remove", vRemove)
	verifIntercept("(*os.File).Sync", func(f *os.File) error { return nil })
	verifIntercept("(*github.com/json-iterator/go.Encoder).Encode", vEncode)
	verifIntercept("(*github.com/json-iterator/go.Decoder).Decode", vDecode)
	st := &JsonDataStore{path: "/data"}

	// never saved: absent file loads as the empty state
	d0, err := st.Load()
	verifAssert(err == nil && d0 != nil && len(d0.Jobs) == 0, "C09.missing-file-loads-empty")

	lastOK := -1
	saves := verifBound("saves", 2)
	for i := 0; i < saves; i++ {
		data := &PersistedData{Jobs: make([]PersistedJob, i+1)}
		fs.snaps = append(fs.snaps, data)
		fs.curSave = i
		err := st.Save(data)
		if err == nil {
			lastOK = i
			verifReach("save-ok")
		} else {
			verifReach("save-failed")
		}
		// what a reader / a fresh process sees now
		got, lerr := st.Load()
		if lastOK >= 0 {
			verifAssert(lerr == nil && got != nil, "C09.load-after-successful-save")
			if lerr == nil && got != nil {
				verifAssert(len(got.Jobs) == len(fs.snaps[lastOK].Jobs), "C09.successful-save-is-what-load-returns")
			}
		} else {
			verifAssert(lerr == nil && got != nil && len(got.Jobs) == 0, "C09.failed-first-save-leaves-store-absent")
		}
	}
	verifReach("end")
}

// VerifC09Concurrent: two Save calls that overlap in time (the final save of Shutdown can overlap a
// save of the persist loop) interleave at every file-system operation; the published file must be a
// complete snapshot at every instant, and once both have returned it holds one of the two snapshots.
func VerifC09Concurrent() {
	fs := &vFSModel{files: map[string]*vNode{}, handles: map[*os.File]*vHandle{}, encTo: map[*jsoniter.Encoder]io.Writer{}, decFrom: map[*jsoniter.Decoder]io.Reader{}}
	vFS = fs
	fs.concurrent = true
	json = vAPI{}
	verifIntercept("os.CreateTemp", vCreateTemp)
	verifIntercept("(*os.File).Name", vFileName)
	verifIntercept("(*os.File).Write", vFileWrite)
	verifIntercept("(*os.File).Close", vFileClose)
	verifIntercept("os.Rename", vRename)
	verifIntercept("os.Open", vOpen)
	verifIntercept("os.Create", vCreate)
	verifIntercept("os.OpenFile", vOpenFile)
	verifIntercept("os.WriteFile", vWriteFile)
	verifIntercept("os.Remove", vRemove)
	verifIntercept("(*os.File).Sync", func(f *os.File) error { return nil })
	verifIntercept("(*github.com/json-iterator/go.Encoder).Encode", vEncode)
	verifIntercept("(*github.com/json-iterator/go.Decoder).Decode", vDecode)
	st := &JsonDataStore{path: "/data"}
	d1 := &PersistedData{Jobs: make([]PersistedJob, 1)}
	d2 := &PersistedData{Jobs: make([]PersistedJob, 2)}
	fs.snaps = []*PersistedData{d1, d2}
	fs.curSave = 1
	verifGoMode(1)
	done := 0
	var e1, e2 error
	verifGo(func() { e1 = st.Save(d1); done++ })
	verifGo(func() { e2 = st.Save(d2); done++ })
	verifBlockUntil(func() bool { return done == 2 })
	if e1 == nil || e2 == nil {
		got, lerr := st.Load()
		verifAssert(lerr == nil && got != nil, "C09.load-after-successful-save")
		if lerr == nil && got != nil {
			verifAssert(len(got.Jobs) == 1 || len(got.Jobs) == 2, "C09.successful-save-is-what-load-returns")
		}
		verifReach("both-returned")
	}
	verifReach("end")
}
