#!/usr/bin/env python3
"""Regenerates MANIFEST.json from checks_table.py and the per-property texts below."""
import json, os, sys
ROOT = os.path.dirname(os.path.abspath(__file__))
sys.path.insert(0, ROOT)
from checks_table import CHECKS
from manifest_texts import TEXTS, NOT_APPLICABLE

props = [json.loads(l)["id"] for l in open(os.path.join(ROOT, "properties.jsonl"))]
checks = []
for pid in props:
    if pid not in CHECKS:
        continue
    t = TEXTS[pid]
    checks.append({
        "property_id": pid,
        "quick_cmd": "./check %s quick" % pid,
        "thorough_cmd": "./check %s thorough" % pid,
        "evidence_file": "/verif/evidence/%s.json" % pid,
        "replay_cmd_template": "./check %s --replay {path}" % pid,
        "engine": "gosx",
        "level_claimed": {"category": "model_checking", "text": t["level"], "design_ref": t.get("design_ref", "DESIGN.md §7")},
        "level_note": t["note"],
        "technique": t["technique"],
    })
na = [{"property_id": p, "reason": NOT_APPLICABLE.get(p, "check not built yet in this session (solver-based harness pending); not claimed")} for p in props if p not in CHECKS]
m = {
    "version": 1,
    "setup_cmd": "cd /verif/engine && GOFLAGS=-mod=mod GOPROXY=off GOSUMDB=off GOTOOLCHAIN=local go build -o /verif/bin/gosx .",
    "hooks": {"guard": "verif", "enable": "none needed: harnesses are injected with a go/packages overlay (engine) and go test -overlay (native replay); /repo carries no hook code",
              "baseline_off_cmd": "cd /repo && go test -vet=off -count=1 ./...", "source_commits": [], "add_only": True},
    "engines": [{"name": "gosx", "path": "/verif/engine", "serves_properties": [c["property_id"] for c in checks],
                 "kind_free_text": "path-forking symbolic executor for Go SSA (go/ssa built from /repo's working tree on every run, fork of x/tools ssa/interp) with an SMT back end (z3 -in, push/pop); counterexamples replayed natively with go test -overlay"}],
    "checks": checks,
    "not_applicable": na,
    "notes": "See DESIGN.md. Exit codes of ./check: 0 held within bounds, 1 VIOLATION, 2 engine/harness error (never a pass). known_findings.json lists repaired defects (fixed:) and unrepaired known findings.",
}
json.dump(m, open(os.path.join(ROOT, "MANIFEST.json"), "w"), indent=1)
print("checks:", [c["property_id"] for c in checks], "n/a:", [x["property_id"] for x in na])
