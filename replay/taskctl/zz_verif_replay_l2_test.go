package taskctl

// Native replay of L2 counterexamples: the real Scheduler (real goroutines, real 50ms poll) against
// a gated mock runner; the test walks the event list of the trace and enforces its order.

import (
	"context"
	"encoding/json"
	"errors"
	"fmt"
	"os"
	"strings"
	"sync"
	"testing"
	"time"

	"github.com/taskctl/taskctl/pkg/scheduler"
	"github.com/taskctl/taskctl/pkg/task"
	"github.com/taskctl/taskctl/pkg/variables"
)

type nStage struct {
	name      string
	deps      []string
	allowFail bool
	entries   int
	began     bool
	ended     bool
	ok        bool
	failed    bool
	canceled  bool
	release   chan string
}

type nL2 struct {
	mu              sync.Mutex
	stages          map[string]*nStage
	order           []string
	cancelDelivered bool
	cancelReturned  bool
	cancelCh        chan struct{}
	once            sync.Once
	inflight        int
	scheduleRet     bool
	viol            map[string]string
}

func (l *nL2) violate(k, v string) {
	if _, ok := l.viol[k]; !ok {
		l.viol[k] = v
	}
}

type nL2Runner struct{ l *nL2 }

func (m *nL2Runner) SetOnTaskChange(f func(t *task.Task)) {}
func (m *nL2Runner) Finish()                              {}
func (m *nL2Runner) Cancel() {
	l := m.l
	l.mu.Lock()
	l.cancelDelivered = true
	l.mu.Unlock()
	l.once.Do(func() { close(l.cancelCh) })
	for {
		l.mu.Lock()
		n := l.inflight
		l.mu.Unlock()
		if n == 0 {
			return
		}
		time.Sleep(time.Millisecond)
	}
}

func (m *nL2Runner) Run(t *task.Task) error {
	l := m.l
	l.mu.Lock()
	st := l.stages[t.Name]
	if l.scheduleRet {
		l.violate("C01.task-interval-inside-schedule-span", t.Name+" runs after Schedule returned")
	}
	if l.cancelDelivered {
		l.mu.Unlock()
		return context.Canceled
	}
	st.entries++
	if st.entries > 1 {
		l.violate("C02.task-runs-at-most-once", t.Name)
	}
	for _, d := range st.deps {
		dep := l.stages[d]
		if !(dep.ended && (dep.ok || (dep.failed && dep.allowFail))) {
			l.violate("C02.task-begins-only-after-dependencies", t.Name+" began before/without "+d)
			if dep.failed && !dep.allowFail {
				l.violate("C08.dependents-of-a-failure-never-run", t.Name+" ran although "+d+" failed")
			}
		}
	}
	if l.cancelReturned {
		l.violate("C04.no-task-begins-after-stop-was-delivered", t.Name)
	}
	st.began = true
	l.inflight++
	l.mu.Unlock()
	outcome := ""
	select {
	case outcome = <-st.release:
	case <-l.cancelCh:
		// told to stop: what the task makes of it is the trace's decision (dies of the interrupt, exits
		// with a status of its own, finishes regularly); without an instruction it dies
		select {
		case outcome = <-st.release:
		case <-time.After(400 * time.Millisecond):
			outcome = "canceled"
		}
	}
	l.mu.Lock()
	defer l.mu.Unlock()
	st.ended = true
	l.inflight--
	switch outcome {
	case "ok":
		st.ok = true
		return nil
	case "canceled":
		st.canceled = true
		return context.Canceled
	default:
		st.failed = true
		return fmt.Errorf("exit status 1")
	}
}

func (l *nL2) waitFor(cond func() bool, d time.Duration) bool {
	deadline := time.Now().Add(d)
	for time.Now().Before(deadline) {
		l.mu.Lock()
		ok := cond()
		l.mu.Unlock()
		if ok {
			return true
		}
		time.Sleep(time.Millisecond)
	}
	return false
}

func TestVerifReplayL2(t *testing.T) {
	path := os.Getenv("VERIF_REPLAY")
	if path == "" {
		t.Skip()
	}
	b, _ := os.ReadFile(path)
	var rf struct {
		Events []string `json:"events"`
	}
	if err := json.Unmarshal(b, &rf); err != nil {
		t.Fatal(err)
	}
	l := &nL2{stages: map[string]*nStage{}, cancelCh: make(chan struct{}), viol: map[string]string{}}
	var stages []*scheduler.Stage
	for _, ev := range rf.Events {
		if !strings.HasPrefix(ev, "stage ") {
			continue
		}
		// stage s1 depends_on[ s0 ] allow_failure
		f := strings.Fields(ev)
		st := &nStage{name: f[1], release: make(chan string, 1), allowFail: strings.Contains(ev, "allow_failure")}
		inner := ev[strings.Index(ev, "[")+1 : strings.Index(ev, "]")]
		st.deps = strings.Fields(inner)
		l.stages[st.name] = st
		l.order = append(l.order, st.name)
		tk := task.FromCommands("x")
		tk.Name = st.name
		tk.AllowFailure = st.allowFail
		stages = append(stages, &scheduler.Stage{Name: st.name, Task: tk, DependsOn: st.deps, AllowFailure: st.allowFail,
			Variables: variables.FromMap(map[string]string{JobIDVariableName: "job"})})
	}
	g, err := scheduler.NewExecutionGraph(stages...)
	if err != nil {
		t.Fatal(err)
	}
	s := NewScheduler(&nL2Runner{l: l})
	// The stage-change callback may take time (prunner's takes the runner-wide mutex). Where the trace
	// has a task failing on its own, then an external cancel, then a task ending canceled, the callback
	// for the failed stage's error notification is held until the canceled task has reported.
	hold := map[string]chan struct{}{}
	lastCanceledEnd := -1
	externalCancel := false
	for i, ev := range rf.Events {
		if strings.HasPrefix(ev, "Scheduler.Cancel called") {
			externalCancel = true
		}
		if strings.HasPrefix(ev, "Run ") && strings.HasSuffix(ev, "ends canceled") {
			lastCanceledEnd = i
		}
	}
	for i, ev := range rf.Events {
		if strings.HasPrefix(ev, "Run ") && strings.HasSuffix(ev, "ends with failure") && externalCancel && i < lastCanceledEnd {
			hold[strings.Fields(ev)[1]] = make(chan struct{})
		}
	}
	releaseHeld := func() {
		for k, ch := range hold {
			close(ch)
			delete(hold, k)
		}
	}
	var holdMu sync.Mutex
	s.OnStageChange(func(stage *scheduler.Stage) {
		if stage.ReadStatus() != scheduler.StatusError {
			return
		}
		l.mu.Lock()
		st := l.stages[stage.Name]
		own := st != nil && st.failed
		l.mu.Unlock()
		holdMu.Lock()
		ch := hold[stage.Name]
		holdMu.Unlock()
		if own && ch != nil {
			select {
			case <-ch:
			case <-time.After(2 * time.Second):
			}
		}
	})
	var res error
	done := make(chan struct{})
	go func() {
		res = s.Schedule(g)
		l.mu.Lock()
		l.scheduleRet = true
		l.mu.Unlock()
		close(done)
	}()
	failFast := false
	for evIdx, ev := range rf.Events {
		f := strings.Fields(ev)
		if evIdx == lastCanceledEnd+1 && lastCanceledEnd >= 0 {
			time.Sleep(20 * time.Millisecond) // the canceled stage has stored its error
			holdMu.Lock()
			releaseHeld()
			holdMu.Unlock()
		}
		switch {
		case strings.HasPrefix(ev, "Run ") && strings.HasSuffix(ev, "begins"):
			st := l.stages[f[1]]
			if !l.waitFor(func() bool { return st.began }, 3*time.Second) {
				t.Logf("replay: %s did not begin", st.name)
			}
		case strings.HasPrefix(ev, "Run ") && strings.Contains(ev, " ends "):
			st := l.stages[f[1]]
			switch {
			case strings.HasSuffix(ev, "ends ok"):
				st.release <- "ok"
			case strings.HasSuffix(ev, "ends canceled"):
				st.release <- "canceled"
			case strings.HasSuffix(ev, "ends with failure"):
				st.release <- "fail"
				if failFast && !st.allowFail {
					go s.Cancel()
				}
			}
			l.waitFor(func() bool { return st.ended }, 3*time.Second)
			time.Sleep(5 * time.Millisecond) // let the stage goroutine publish its status
		case strings.HasPrefix(ev, "Scheduler.Cancel called"):
			go func() {
				s.Cancel()
				l.mu.Lock()
				l.cancelReturned = true
				l.mu.Unlock()
			}()
			l.waitFor(func() bool { return l.cancelDelivered }, 3*time.Second)
		case strings.HasPrefix(ev, "fail-fast"):
			failFast = true
		case strings.HasPrefix(ev, "Schedule returns"):
			select {
			case <-done:
			case <-time.After(5 * time.Second):
				t.Logf("replay: Schedule did not return")
			}
		}
	}
	select {
	case <-done:
	case <-time.After(5 * time.Second):
		l.violate("no-deadlock", "Schedule did not return within 5s")
		// unblock everything
		l.once.Do(func() { close(l.cancelCh) })
	}
	time.Sleep(120 * time.Millisecond)
	l.mu.Lock()
	defer l.mu.Unlock()
	allRanOK, someNotFinished, anyTaskError := true, false, false
	for _, n := range l.order {
		st := l.stages[n]
		if !(st.entries == 1 && st.ended && (st.ok || (st.failed && st.allowFail))) {
			allRanOK = false
		}
		if !st.ended {
			someNotFinished = true
		}
		if st.failed && !st.allowFail {
			anyTaskError = true
		}
	}
	if res == nil && !allRanOK {
		l.violate("C08.success-only-if-every-task-ran-ok", "Schedule returned nil although not every task ran to success/allowed failure")
		l.violate("C02.success-means-every-task-ran-once", "Schedule returned nil although not every task ran")
	}
	if res == nil && l.cancelDelivered && (someNotFinished || !allRanOK) {
		l.violate("C04.canceled-run-never-a-plain-success", "cancel delivered, tasks cut short, Schedule returned nil")
	}
	if anyTaskError && res == nil {
		l.violate("C08.failure-makes-the-job-errored", "")
	}
	if externalCancel {
		for _, n := range l.order {
			if l.stages[n].canceled && !(res != nil && errors.Is(res, context.Canceled)) {
				l.violate("C04.cancel-that-stopped-a-task-is-reported-as-canceled", fmt.Sprintf("%s was stopped by the cancel, Schedule returned %v", n, res))
			}
		}
	}
	for _, node := range g.Nodes() {
		if node.ReadStatus() == scheduler.StatusRunning {
			l.violate("C08.no-task-reported-running-after-completion", node.Name)
		}
	}
	_ = errors.Is
	for k, v := range l.viol {
		fmt.Printf("NATIVE-VIOLATION %s :: %s\n", k, v)
	}
	if len(l.viol) > 0 {
		t.Fail()
	}
}
