package store

// Native replay for C10c: the two doubles found by the solver are written through the real
// JsonDataStore (real jsoniter codec, real files) and read back.

import (
	stdjson "encoding/json"
	"fmt"
	"math"
	"os"
	"strconv"
	"strings"
	"testing"
	"time"

	"github.com/gofrs/uuid"
)

func nParseFP(s string) float64 {
	s = strings.TrimSpace(s)
	if strings.HasPrefix(s, "(fp ") {
		f := strings.Fields(strings.Trim(s[3:], "() "))
		if len(f) == 3 {
			p := func(x string) uint64 {
				if strings.HasPrefix(x, "#b") {
					u, _ := strconv.ParseUint(x[2:], 2, 64)
					return u
				}
				u, _ := strconv.ParseUint(strings.TrimPrefix(x, "#x"), 16, 64)
				return u
			}
			return math.Float64frombits(p(f[0])<<63 | p(f[1])<<52 | p(f[2]))
		}
	}
	v, _ := strconv.ParseFloat(s, 64)
	return v
}

func TestVerifReplayFloat(t *testing.T) {
	path := os.Getenv("VERIF_REPLAY")
	if path == "" {
		t.Skip()
	}
	b, _ := os.ReadFile(path)
	var rf struct {
		Model map[string]string `json:"model"`
	}
	if err := stdjson.Unmarshal(b, &rf); err != nil {
		t.Fatal(err)
	}
	dir, _ := os.MkdirTemp("", "verif_store_")
	defer os.RemoveAll(dir)
	st, err := NewJSONDataStore(dir)
	if err != nil {
		t.Fatal(err)
	}
	bad := 0
	for _, name := range []string{"v1", "v2"} {
		v := nParseFP(rf.Model[name])
		id, _ := uuid.NewV4()
		data := &PersistedData{Jobs: []PersistedJob{{ID: id, Pipeline: "p", Created: time.Now(), Completed: true, Variables: map[string]interface{}{"x": v}}}}
		if err := st.Save(data); err != nil {
			t.Fatal(err)
		}
		back, err := st.Load()
		if err != nil {
			t.Fatal(err)
		}
		got, _ := back.Jobs[0].Variables["x"].(float64)
		if got != v {
			bad++
			fmt.Printf("variable %s: saved %v (%b), loaded %v\n", name, v, v, got)
		}
	}
	if bad > 0 {
		fmt.Println("NATIVE-VIOLATION C10.roundtrip.float-variables")
		t.Fail()
	}
}
