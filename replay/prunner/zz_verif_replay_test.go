package prunner

// Native replay of L3 (BMC) counterexamples: drives the PUBLIC API of the natively compiled
// runner with real goroutines, the real scheduler and real timers, in the event order of the
// trace, with a gated mock task runner; the property is evaluated on observable behaviour only
// (Run entries seen by the runner, ReadJob / IterateJobs / ListPipelines, return values).
//
// Injected with `go test -overlay`; nothing is written under /repo.

import (
	"context"
	"encoding/json"
	"fmt"
	"io"
	"os"
	"strconv"
	"strings"
	"sync"
	"testing"
	"time"

	"github.com/gofrs/uuid"
	"github.com/taskctl/taskctl/pkg/task"

	"github.com/Flowpack/prunner/definition"
	"github.com/Flowpack/prunner/store"
	"github.com/Flowpack/prunner/taskctl"
)

type nReplayFile struct {
	Obligation string            `json:"obligation"`
	Model      map[string]string `json:"model"`
	Events     []string          `json:"events"`
}

const nDelay = 900 * time.Millisecond

type nJob struct {
	name      string
	id        uuid.UUID
	accepted  time.Time
	delay     time.Duration
	defGen    int
	mode      int // 0 gated, 1 succeed, 2 fail
	failOne   bool
	entries   map[string]int
	firstRun  time.Time
	cancelAck bool
	ackWait   bool
	// ackRunning: CancelJob returned nil while the job was running
	ackRunning bool
	// finishEarly: tasks that end successfully as soon as they run (used to bring a job to the point
	// where every task has begun before a cancel lands)
	finishEarly map[string]bool
	running     map[string]bool
	replaced  bool
	cancelled chan struct{}
	once      sync.Once
	cancelN   int
	inflight  int
	cancelOne int  // how many in-flight tasks may react to the cancel now
	cancelAll bool // every in-flight task may react to the cancel
	tasksSeen map[string][]string
	envSeen   map[string]string
	removed   bool // a save removed it from what the API reports
}

type nWorld struct {
	t        *testing.T
	mu       sync.Mutex
	cond     *sync.Cond
	r        *PipelineRunner
	defs     *definition.PipelinesDef
	defGen   int
	reloads  int
	jobs     []*nJob
	byID     map[uuid.UUID]*nJob
	viol     map[string]string
	startSeq []string
}

func (w *nWorld) violate(obl, msg string) {
	if _, ok := w.viol[obl]; !ok {
		w.viol[obl] = msg
	}
}

type nRunner struct {
	w        *nWorld
	job      *PipelineJob
	onChange func(t *task.Task)
}

func (m *nRunner) SetOnTaskChange(f func(t *task.Task)) { m.onChange = f }
func (m *nRunner) Finish()                              {}
func (m *nRunner) Cancel() {
	w := m.w
	w.mu.Lock()
	nj := w.byID[m.job.ID]
	w.mu.Unlock()
	if nj != nil {
		nj.once.Do(func() { close(nj.cancelled) })
		w.mu.Lock()
		nj.cancelN++
		w.cond.Broadcast()
		w.mu.Unlock()
	}
}

func (m *nRunner) Run(t *task.Task) error {
	w := m.w
	now := time.Now()
	w.mu.Lock()
	nj := w.byID[m.job.ID]
	for nj == nil { // ScheduleAsync has not returned yet
		w.cond.Wait()
		nj = w.byID[m.job.ID]
	}
	nj.entries[t.Name]++
	if nj.entries[t.Name] > 1 {
		w.violate("C02.job-started-at-most-once", fmt.Sprintf("task %s of %s entered Run %d times", t.Name, nj.name, nj.entries[t.Name]))
	}
	first := nj.firstRun.IsZero()
	if first {
		nj.firstRun = now
		w.startSeq = append(w.startSeq, nj.name)
		if nj.ackWait {
			w.violate("C04.canceled-waiting-job-never-starts", nj.name+" runs after its cancel was acknowledged while waiting")
		}
		if nj.replaced {
			w.violate("C07.replaced-job-never-starts", nj.name+" runs although it was replaced")
		}
		if nj.removed {
			w.violate("C15.a-job-that-is-no-longer-reported-never-starts", nj.name+" runs although a save removed it from the job list")
		}
		if nj.delay > 0 && now.Sub(nj.accepted) < nj.delay {
			w.violate("C07.start-not-before-delay", fmt.Sprintf("%s started %s after acceptance, delay %s", nj.name, now.Sub(nj.accepted), nj.delay))
		}
		if w.reloads == 0 {
			for _, o := range w.jobs {
				if o == nj {
					break
				}
				if o.firstRun.IsZero() && !o.cancelAck && !o.replaced && o.mode != 3 {
					// o was accepted earlier, is still waiting and not canceled
					stillWaiting := false
					_ = w.r.ReadJob(o.id, func(j *PipelineJob) { stillWaiting = j.Start == nil && !j.Canceled })
					if stillWaiting {
						w.violate("C06.fifo-start-order", nj.name+" starts while "+o.name+" (accepted earlier) still waits")
					}
				}
			}
		}
	}
	nj.tasksSeen[t.Name] = append([]string{}, t.Commands...)
	// C01: count jobs that are executing now
	executing := 0
	for _, o := range w.jobs {
		if o.firstRun.IsZero() {
			continue
		}
		done := false
		if o.removed {
			done = o.inflight == 0 && o != nj // not reported any more: it executes while a task of it is in flight
		} else {
			_ = w.r.ReadJob(o.id, func(j *PipelineJob) { done = j.Completed })
		}
		if !done {
			executing++
		}
	}
	conc := w.defs.Pipelines["p"].Concurrency
	if first && executing > conc {
		w.violate("C01.live-jobs-within-concurrency", fmt.Sprintf("%d jobs executing, concurrency %d", executing, conc))
	}
	w.cond.Broadcast()
	w.mu.Unlock()

	t.Start = time.Now()
	if m.onChange != nil {
		m.onChange(t)
	}
	w.mu.Lock()
	nj.inflight++
	if nj.running == nil {
		nj.running = map[string]bool{}
	}
	nj.running[t.Name] = true
	w.mu.Unlock()
	defer func() {
		w.mu.Lock()
		nj.inflight--
		delete(nj.running, t.Name)
		w.mu.Unlock()
	}()
	var err error
	for {
		w.mu.Lock()
		mode, failOne := nj.mode, nj.failOne
		if nj.finishEarly[t.Name] {
			w.mu.Unlock()
			break
		}
		if failOne {
			nj.failOne = false
		}
		w.mu.Unlock()
		if failOne || mode == 2 {
			err = fmt.Errorf("task failed: exit status 1")
			break
		}
		if mode == 1 {
			break
		}
		cancelled := false
		select {
		case <-nj.cancelled:
			// a task reacts to the stop when the trace says so (TASKCANCELED: one task; RET / end: all)
			w.mu.Lock()
			if nj.cancelAll {
				cancelled = true
			} else if nj.cancelOne > 0 {
				nj.cancelOne--
				cancelled = true
			}
			w.mu.Unlock()
			if !cancelled {
				time.Sleep(2 * time.Millisecond)
			}
		case <-time.After(5 * time.Millisecond):
		}
		if cancelled {
			err = context.Canceled
			break
		}
	}
	if err != nil {
		t.Errored = true
		t.Error = err
		t.ExitCode = 1
		if m.onChange != nil {
			m.onChange(t)
		}
		return err
	}
	t.End = time.Now()
	if m.onChange != nil {
		m.onChange(t)
	}
	return nil
}

func nBV(s string) int64 {
	s = strings.TrimSpace(s)
	switch {
	case strings.HasPrefix(s, "#x"):
		u, _ := strconv.ParseUint(s[2:], 16, 64)
		return int64(u)
	case strings.HasPrefix(s, "#b"):
		u, _ := strconv.ParseUint(s[2:], 2, 64)
		return int64(u)
	}
	return 0
}

func nTasks(gen int) map[string]definition.TaskDef {
	if gen == 0 {
		return map[string]definition.TaskDef{
			"a": {Script: []string{"echo a0"}},
			"b": {Script: []string{"echo b0"}, DependsOn: []string{"a"}, Env: map[string]string{"T": "b0"}},
			"c": {Script: []string{"echo c0"}},
		}
	}
	return map[string]definition.TaskDef{
		"a": {Script: []string{"echo a1"}, DependsOn: []string{"c"}},
		"c": {Script: []string{"echo c1"}, AllowFailure: true},
	}
}

func nDefs(model map[string]string, tag string, gen int) *definition.PipelinesDef {
	c := nBV(model[tag+".concurrency"])
	if c > 64 {
		c = 64
	}
	if os.Getenv("VERIF_REPLAY_VARIANT") == "conc1" {
		c = 1
	}
	def := definition.PipelineDef{
		Concurrency:                      int(c),
		QueueStrategy:                    definition.QueueStrategy(nBV(model[tag+".strategy"])),
		ContinueRunningTasksAfterFailure: strings.TrimSpace(model[tag+".continue_after_failure"]) == "true",
		Tasks:                            nTasks(gen),
	}
	if nBV(model[tag+".start_delay"]) > 0 {
		def.StartDelay = nDelay
	}
	if strings.TrimSpace(model[tag+".has_queue_limit"]) == "true" {
		l := int(nBV(model[tag+".queue_limit"]))
		def.QueueLimit = &l
	}
	if gen == 0 {
		def.Env = map[string]string{"E": "e0"}
	} else {
		def.Env = map[string]string{"E": "e1", "F": "f1"}
	}
	return &definition.PipelinesDef{Pipelines: map[string]definition.PipelineDef{"p": def}}
}

func (w *nWorld) counts() (running, waiting int, newestWaiting *nJob) {
	for _, nj := range w.jobs {
		w.mu.Lock()
		inflight := nj.inflight
		w.mu.Unlock()
		found := false
		_ = w.r.ReadJob(nj.id, func(j *PipelineJob) {
			found = true
			// a job executes while it is reported as started-and-unfinished, and in any case while one of
			// its tasks is in flight in the task runner (observed by the mock)
			if (j.Start != nil && !j.Completed && !j.Canceled) || inflight > 0 {
				running++
			}
			if j.Start == nil && !j.Canceled {
				waiting++
				newestWaiting = nj
			}
		})
		if !found && inflight > 0 {
			running++ // no longer reported, but one of its tasks is executing
		}
	}
	return
}

func (w *nWorld) waitCompleted(nj *nJob, d time.Duration) bool {
	deadline := time.Now().Add(d)
	for time.Now().Before(deadline) {
		done := false
		_ = w.r.ReadJob(nj.id, func(j *PipelineJob) { done = j.Completed })
		if done {
			return true
		}
		time.Sleep(5 * time.Millisecond)
	}
	return false
}

func (w *nWorld) job(name string) *nJob {
	for _, nj := range w.jobs {
		if nj.name == name {
			return nj
		}
	}
	return nil
}

func (w *nWorld) schedule(reserved bool) {
	def := w.defs.Pipelines["p"]
	r, nw, newest := w.counts()
	const (
		xStart = iota
		xNoQueue
		xReplace
		xFull
		xAppend
	)
	expect := xAppend
	if r < def.Concurrency && def.StartDelay == 0 {
		expect = xStart
	} else if def.QueueLimit != nil && *def.QueueLimit == 0 {
		expect = xNoQueue
	} else if def.QueueStrategy == definition.QueueStrategyReplace && nw > 0 {
		expect = xReplace
	} else if def.QueueLimit != nil && nw >= *def.QueueLimit {
		expect = xFull
	}
	var listed PipelineInfo
	for _, pi := range w.r.ListPipelines() {
		if pi.Pipeline == "p" {
			listed = pi
		}
	}
	if listed.Running != (r > 0) {
		w.violate("C15.running-flag", "listing disagrees with job states")
	}
	opts := ScheduleOpts{User: "u"}
	if reserved {
		opts.Variables = map[string]interface{}{taskctl.JobIDVariableName: "forged"}
	}
	accepted := time.Now()
	w.mu.Lock() // keep Run callbacks from looking up the job before it is registered
	w.mu.Unlock()
	job, err := w.r.ScheduleAsync("p", opts)
	if listed.Schedulable != (err == nil) {
		w.violate("C15.schedulable-iff-accepted", fmt.Sprintf("listed schedulable=%v but schedule returned %v", listed.Schedulable, err))
	}
	switch expect {
	case xNoQueue:
		if err != errNoQueue {
			w.violate("C05.table.reject-no-queue", fmt.Sprintf("expected no-queue rejection, got %v", err))
		}
	case xFull:
		if err != errQueueFull {
			w.violate("C05.table.reject-full", fmt.Sprintf("expected queue-full rejection, got %v", err))
		}
	default:
		if err != nil {
			w.violate("C05.table.accept", fmt.Sprintf("running=%d waiting=%d: expected acceptance, got %v", r, nw, err))
		}
	}
	if err != nil || job == nil {
		_, nw2, _ := w.counts()
		if nw2 != nw {
			w.violate("C05.rejected-leaves-no-trace", "waiting count changed by a rejected request")
		}
		return
	}
	nj := &nJob{name: fmt.Sprintf("j%d", len(w.jobs)+1), id: job.ID, accepted: accepted, delay: def.StartDelay, defGen: w.defGen,
		entries: map[string]int{}, cancelled: make(chan struct{}), tasksSeen: map[string][]string{}}
	if reserved {
		nj.mode = 3
	}
	w.mu.Lock()
	w.jobs = append(w.jobs, nj)
	w.byID[job.ID] = nj
	w.cond.Broadcast()
	w.mu.Unlock()
	time.Sleep(20 * time.Millisecond)
	_, nw2, _ := w.counts()
	switch expect {
	case xReplace:
		if newest != nil {
			newest.replaced = true
			canceled := false
			_ = w.r.ReadJob(newest.id, func(j *PipelineJob) { canceled = j.Canceled })
			if !canceled {
				w.violate("C07.replaced-job-reported-canceled", newest.name+" was replaced but is not reported canceled")
			}
		}
		if nw2 != nw {
			w.violate("C05.replace-keeps-queue-length", "")
		}
	case xAppend:
		if nw2 != nw+1 {
			w.violate("C05.append-grows-queue-by-one", fmt.Sprintf("waiting %d -> %d", nw, nw2))
		}
	case xStart:
		if reserved {
			ok := false
			_ = w.r.ReadJob(nj.id, func(j *PipelineJob) { ok = j.Canceled && j.LastError != nil })
			if !ok {
				w.violate("C02.unstartable-job-reported-canceled-with-error", "")
			}
		}
	}
	if w.reloads == 0 && def.QueueLimit != nil && nw2 > *def.QueueLimit {
		w.violate("C05.waiting-never-exceeds-queue-limit", "")
	}
	if w.reloads == 0 && def.QueueStrategy == definition.QueueStrategyReplace && nw2 > 1 {
		w.violate("C05.at-most-one-waiting-under-replace", "")
	}
}

// nRetNilFollows: the trace lets this job's scheduler return nil after the cancel, without the stop
// having been delivered or a task having reacted to it in between.
func nRetNilFollows(rest []string, name string) bool {
	for _, ev := range rest {
		f := strings.Fields(ev)
		if len(f) == 0 {
			continue
		}
		switch {
		case f[0] == "RET" && len(f) >= 3 && f[1] == name:
			return f[2] == "nil"
		case f[0] == "CGO", f[0] == "TASKCANCELED" && len(f) >= 2 && f[1] == name:
			return false
		}
	}
	return false
}

// advanceToLastTasks lets every task that has dependents finish successfully and waits until all the
// others are in flight: the cancel then lands when every task of the job has begun (a cancel racing
// with completion).
func (w *nWorld) advanceToLastTasks(nj *nJob) {
	tasks := nTasks(nj.defGen)
	hasDependents := map[string]bool{}
	for _, td := range tasks {
		for _, d := range td.DependsOn {
			hasDependents[d] = true
		}
	}
	w.mu.Lock()
	if nj.firstRun.IsZero() || nj.mode != 0 {
		w.mu.Unlock()
		return
	}
	nj.finishEarly = hasDependents
	w.mu.Unlock()
	deadline := time.Now().Add(3 * time.Second)
	for time.Now().Before(deadline) {
		all := true
		w.mu.Lock()
		for name := range tasks {
			if !hasDependents[name] && !nj.running[name] {
				all = false
			}
		}
		w.mu.Unlock()
		if all {
			return
		}
		time.Sleep(5 * time.Millisecond)
	}
}

func (w *nWorld) cancel(nj *nJob) {
	var wasCanceled, wasCompleted, wasWaiting bool
	_ = w.r.ReadJob(nj.id, func(j *PipelineJob) { wasCanceled, wasCompleted, wasWaiting = j.Canceled, j.Completed, j.Start == nil })
	err := w.r.CancelJob(nj.id)
	switch {
	case wasCanceled:
		if err != nil {
			w.violate("C04.cancel-canceled-is-noop", err.Error())
		}
	case wasCompleted:
		if err == nil {
			w.violate("C04.finished-job-unchanged", "cancel of a finished job did not report an error")
		}
	case wasWaiting:
		canceled := false
		_ = w.r.ReadJob(nj.id, func(j *PipelineJob) { canceled = j.Canceled })
		if err != nil || !canceled {
			w.violate("C04.cancel-waiting-acknowledged", "")
		}
		w.mu.Lock()
		nj.cancelAck, nj.ackWait = true, true
		w.mu.Unlock()
	default:
		if err != nil {
			w.violate("C04.cancel-running-acknowledged", err.Error())
		}
		w.mu.Lock()
		nj.cancelAck = true
		nj.ackRunning = true
		w.mu.Unlock()
		// the stop must be delivered to the runner
		deadline := time.Now().Add(2 * time.Second)
		for {
			w.mu.Lock()
			n := nj.cancelN
			w.mu.Unlock()
			if n > 0 || time.Now().After(deadline) {
				if n == 0 {
					w.violate("C04.cancel-running-delivers-stop", "runner.Cancel not called within 2s")
				}
				break
			}
			time.Sleep(5 * time.Millisecond)
		}
	}
}

// checkSpans: every interval in which a task of a job runs lies inside the span in which the job is
// reported as executing (started, not completed, not canceled) - C01, second sentence.
func (w *nWorld) checkSpans() {
	w.mu.Lock()
	jobs := append([]*nJob{}, w.jobs...)
	w.mu.Unlock()
	for _, nj := range jobs {
		w.mu.Lock()
		inflight := nj.inflight
		w.mu.Unlock()
		if inflight == 0 {
			continue
		}
		executing := false
		_ = w.r.ReadJob(nj.id, func(j *PipelineJob) { executing = j.Start != nil && !j.Completed && !j.Canceled })
		w.mu.Lock()
		still := nj.inflight
		w.mu.Unlock()
		if !executing && still > 0 {
			w.violate("C01.slot-held-until-scheduler-returned", nj.name+" has a task executing while the job is reported completed/canceled (its concurrency slot is free)")
		}
	}
}

// settle checks the quiescent-state obligations (C03, C15) once nothing is pending any more.
func (w *nWorld) settle() {
	w.checkSpans()
	// from here on every task that was told to stop may stop
	w.mu.Lock()
	for _, nj := range w.jobs {
		nj.cancelAll = true
	}
	w.mu.Unlock()
	// early drain: tasks may finish at any time - let the jobs that run now finish one by one right
	// away (before pending start delays elapse); the monitors in Run stay active
	if os.Getenv("VERIF_NO_DRAIN") == "" {
		for round := 0; round < 4; round++ {
			released := false
			w.mu.Lock()
			for _, nj := range w.jobs {
				if !nj.firstRun.IsZero() && nj.mode == 0 {
					done := false
					_ = w.r.ReadJob(nj.id, func(j *PipelineJob) { done = j.Completed })
					if !done {
						nj.mode = 1
						released = true
						break
					}
				}
			}
			w.mu.Unlock()
			if !released {
				break
			}
			time.Sleep(170 * time.Millisecond)
		}
	}
	// wait until every pending start delay has certainly elapsed
	var latest time.Time
	for _, nj := range w.jobs {
		if nj.delay > 0 {
			if d := nj.accepted.Add(nj.delay); d.After(latest) {
				latest = d
			}
		}
	}
	if wait := time.Until(latest.Add(200 * time.Millisecond)); wait > 0 {
		time.Sleep(wait)
	}
	time.Sleep(150 * time.Millisecond)
	def := w.defs.Pipelines["p"]
	// drain: let every started job run to success, one round at a time, so that what the trace left
	// behind (queue order, stranded jobs) becomes observable through Run entries and job states
	if os.Getenv("VERIF_NO_DRAIN") == "" {
		for round := 0; round < 12; round++ {
			r0, nw0, _ := w.counts()
			if r0 == 0 && nw0 == 0 {
				break
			}
			w.mu.Lock()
			for _, nj := range w.jobs {
				if !nj.firstRun.IsZero() && nj.mode == 0 {
					nj.mode = 1
					break // one job per round keeps the start order observable
				}
			}
			w.mu.Unlock()
			time.Sleep(180 * time.Millisecond)
			var latest2 time.Time
			for _, nj := range w.jobs {
				if nj.delay > 0 {
					if d := nj.accepted.Add(nj.delay); d.After(latest2) {
						latest2 = d
					}
				}
			}
			if wait := time.Until(latest2.Add(100 * time.Millisecond)); wait > 0 {
				time.Sleep(wait)
			}
			r1, nw1, _ := w.counts()
			if r1 == 0 && nw1 > 0 && r0 == 0 && nw0 == nw1 {
				break // nothing runs and nothing changed: stranded
			}
		}
	}
	r, nw, _ := w.counts()
	if nw > 0 && r == 0 {
		w.violate("C03.waiting-job-has-a-pending-wakeup", fmt.Sprintf("%d job(s) wait, nothing runs, no delay pending", nw))
	}
	if nw > 0 && r < def.Concurrency && w.reloads == 0 {
		w.violate("C03.eligible-head-starts-at-once", fmt.Sprintf("%d job(s) wait although only %d of %d slots are used and all delays are over", nw, r, def.Concurrency))
	}
	n := 0
	w.r.IterateJobs(func(j *PipelineJob) { n++ })
	reported := 0
	for _, nj := range w.jobs {
		if !nj.removed {
			reported++
		}
	}
	if n != reported {
		w.violate("C15.job-list-complete", fmt.Sprintf("%d jobs accepted and not removed, %d listed", reported, n))
	}
}

type nNullStore struct{}

func (nNullStore) Load() (*store.PersistedData, error) { return &store.PersistedData{}, nil }
func (nNullStore) Save(d *store.PersistedData) error   { return nil }

type nNullOutput struct{}

func (nNullOutput) Writer(a, b, c string) (io.WriteCloser, error) { return nil, nil }
func (nNullOutput) Reader(a, b, c string) (io.ReadCloser, error) { return nil, nil }
func (nNullOutput) Remove(id string) error                       { return nil }

func TestVerifReplayBMC(t *testing.T) {
	path := os.Getenv("VERIF_REPLAY")
	if path == "" {
		t.Skip("VERIF_REPLAY not set")
	}
	b, err := os.ReadFile(path)
	if err != nil {
		t.Fatal(err)
	}
	var rf nReplayFile
	if err := json.Unmarshal(b, &rf); err != nil {
		t.Fatal(err)
	}
	w := &nWorld{t: t, byID: map[uuid.UUID]*nJob{}, viol: map[string]string{}}
	w.cond = sync.NewCond(&w.mu)
	w.defs = nDefs(rf.Model, "def", 0)
	r, err := NewPipelineRunner(context.Background(), w.defs, func(j *PipelineJob) taskctl.Runner {
		return &nRunner{w: w, job: j}
	}, nil, nil)
	if err != nil {
		t.Fatal(err)
	}
	w.r = r
	for evIdx, ev := range rf.Events {
		f := strings.Fields(ev)
		if len(f) == 0 {
			continue
		}
		w.checkSpans()
		switch f[0] {
		case "SCHED":
			w.schedule(f[1] == "reserved")
		case "CANCEL":
			if nj := w.job(f[1]); nj != nil {
				if nRetNilFollows(rf.Events[evIdx+1:], nj.name) {
					w.advanceToLastTasks(nj)
				}
				w.cancel(nj)
			}
		case "RET":
			nj := w.job(f[1])
			if nj == nil {
				continue
			}
			w.mu.Lock()
			switch f[2] {
			case "nil":
				nj.mode = 1
			case "task-error":
				nj.mode = 2
			}
			nj.cancelAll = true
			w.mu.Unlock()
			if !w.waitCompleted(nj, 5*time.Second) {
				t.Logf("replay: %s did not complete within 5s after %q", nj.name, ev)
			}
			time.Sleep(30 * time.Millisecond)
		case "TASKERR":
			if nj := w.job(f[1]); nj != nil {
				w.mu.Lock()
				nj.failOne = true
				w.mu.Unlock()
				time.Sleep(100 * time.Millisecond)
			}
		case "TIMER":
			if nj := w.job(f[1]); nj != nil {
				if wait := time.Until(nj.accepted.Add(nj.delay + 60*time.Millisecond)); wait > 0 {
					time.Sleep(wait)
				}
			}
		case "TASKCANCELED":
			if nj := w.job(f[1]); nj != nil {
				w.mu.Lock()
				nj.cancelOne++
				w.mu.Unlock()
				time.Sleep(80 * time.Millisecond)
			}
		case "CGO":
			time.Sleep(60 * time.Millisecond)
		case "UNDEF":
			w.reloads++
			w.r.ReplaceDefinitions(&definition.PipelinesDef{Pipelines: map[string]definition.PipelineDef{}})
		case "REDEF":
			w.r.ReplaceDefinitions(w.defs)
		case "SAVE":
			if w.r.store == nil {
				w.r.store = &nNullStore{}
				w.r.outputStore = &nNullOutput{}
			}
			w.r.SaveToStore()
			for _, nj := range w.jobs {
				found := false
				_ = w.r.ReadJob(nj.id, func(j *PipelineJob) { found = true })
				if !found {
					w.mu.Lock()
					nj.removed = true
					w.mu.Unlock()
				}
			}
		case "RELOAD":
			w.reloads++
			w.defGen++
			w.defs = nDefs(rf.Model, "def'", w.defGen)
			w.r.ReplaceDefinitions(w.defs)
		}
	}
	w.settle()
	for _, nj := range w.jobs {
		w.mu.Lock()
		ack := nj.ackRunning
		w.mu.Unlock()
		if !ack {
			continue
		}
		completed, canceled := false, false
		_ = w.r.ReadJob(nj.id, func(j *PipelineJob) { completed, canceled = j.Completed, j.Canceled })
		if completed && !canceled {
			w.violate("C04.acknowledged-cancel-ends-reported-as-canceled", nj.name+": CancelJob returned nil while it was running, it ended completed and not canceled")
		}
	}
	w.mu.Lock()
	defer w.mu.Unlock()
	for k, v := range w.viol {
		fmt.Printf("NATIVE-VIOLATION %s :: %s\n", k, v)
	}
	if len(w.viol) > 0 {
		t.Fail()
	}
}
